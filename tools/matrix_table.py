#!/venv/bin/python
"""usage: matrix_table.py <matrix log> [<matrix log> ...]  -> writes seeded/MATRIX.md (later logs override earlier cells)"""
import collections
import json
import re
import sys
from pathlib import Path

ROOT = Path(__file__).resolve().parent.parent
cells = collections.defaultdict(dict)
sigs = {}
for log in sys.argv[1:]:
    for l in open(log):
        m = re.match(r'(\S+) (C\d\d) exit=(\d) (\d+)s (.*)', l)
        if m:
            cells[m.group(1)][m.group(2)] = int(m.group(3))
            if m.group(3) == '1':
                sigs[(m.group(1), m.group(2))] = m.group(5)
checks = [f'C{i:02d}' for i in range(1, 21)]
out = ['# Seeded changes x checks (quick tier, generated search only, regression replays off)', '',
       'Every change was run against the check of its own property; further cells were run where a change is '
       'documented as caught by another check (DESIGN.md section 13). A full 20 x N cross table was started twice and '
       'abandoned (about ten hours of machine time). '
       'Cell: `X` the check exits 1 with a VIOLATION line, `.` exits 0, blank = not run, `?` harness error. '
       'Column `own` = caught by the check of the property the change was written against.', '',
       '| seeded change | property | own | ' + ' | '.join(c[1:] for c in checks) + ' |',
       '|---|---|---|' + '---|' * len(checks)]
missed = []
for sid in sorted(cells):
    meta = ROOT / 'seeded' / sid / 'meta.json'
    prop = json.loads(meta.read_text()).get('property', '?') if meta.exists() else '?'
    row = cells[sid]
    own = row.get(prop)
    if own != 1:
        missed.append(sid)
    other = sorted(c for c in checks if c != prop and row.get(c) == 1)
    line = f'| {sid} | {prop} | {"yes" if own == 1 else ("no (" + ", ".join(other) + ")" if other else "NO")} | ' + ' | '.join(
        {1: 'X', 0: '.', 2: '?'}.get(row.get(c), ' ') for c in checks) + ' |'
    out.append(line)
out += ['', f'{len(cells)} seeded changes; caught by the own-property check: {len(cells) - len(missed)}; not caught: '
        f'{missed or "none"}', '']
out += ['## Signatures reported by the own-property check', '']
for sid in sorted(cells):
    meta = ROOT / 'seeded' / sid / 'meta.json'
    prop = json.loads(meta.read_text()).get('property', '?') if meta.exists() else '?'
    if (sid, prop) in sigs:
        out.append(f'- {sid} / {prop}: {sigs[(sid, prop)]}')
(ROOT / 'seeded' / 'MATRIX.md').write_text('\n'.join(out) + '\n')
print(f'{len(cells)} rows; missed by own check: {missed}')
