#!/bin/bash
# Run every registered check (quick tier, generated search only) against every seeded change; 4 seeds at a time.
# usage: tools/matrix.sh <out file> [seed ids...]
out=$1; shift
seeds="$@"
here=$(cd $(dirname $0)/.. && pwd)
[ -z "$seeds" ] && seeds=$(ls $here/seeded | grep -v MATRIX)
checks="C01 C02 C03 C04 C05 C06 C07 C08 C09 C10 C11 C12 C13 C14 C15 C16 C17 C18 C19 C20"
: > $out
echo $seeds | tr ' ' '\n' | xargs -P ${MATRIX_PAR:-4} -I{} $here/tools/run_seed.py {} quick ${MATRIX_CHECKS:-$checks} >> $out 2>&1
echo MATRIX-DONE >> $out
