#!/bin/bash
# Run every registered check (quick tier, generated search only) against every seeded change.
# Phase 1: each change against the check of its own property (the row that matters most, done first);
# phase 2: the remaining checks. MATRIX_PAR seeds at a time (default 4).
# usage: tools/matrix.sh <out file> [seed ids...]
out=$1; shift
seeds="$@"
here=$(cd $(dirname $0)/.. && pwd)
[ -z "$seeds" ] && seeds=$(ls $here/seeded | grep -v MATRIX)
checks="C01 C02 C03 C04 C05 C06 C07 C08 C09 C10 C11 C12 C13 C14 C15 C16 C17 C18 C19 C20"
: > $out
own() { /venv/bin/python -c "import json,sys; print(json.load(open('$here/seeded/$1/meta.json'))['property'])"; }
export -f own
export here
echo $seeds | tr ' ' '\n' | xargs -P ${MATRIX_PAR:-4} -I{} bash -c 'SEED_RUN_TAG=_mx1 $here/tools/run_seed.py {} quick $(own {})' >> $out 2>&1
echo MATRIX-OWN-DONE >> $out
[ -n "$MATRIX_OWN_ONLY" ] && exit 0
echo $seeds | tr ' ' '\n' | xargs -P ${MATRIX_PAR:-4} -I{} bash -c 'o=$(own {}); SEED_RUN_TAG=_mx2 $here/tools/run_seed.py {} quick $(echo '"$checks"' | tr " " "\n" | grep -v $o | tr "\n" " ")' >> $out 2>&1
echo MATRIX-DONE >> $out
