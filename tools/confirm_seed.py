#!/venv/bin/python
"""Confirm a seeded change independently: demo passes on the clean tree, fails with the patch, suite unchanged.

usage: confirm_seed.py <dir with patch.diff + demo.py [+ notes.md]> <property id> <seed id>
Writes /verif/seeded/<seed id>/{patch.diff, demo.py, notes.md, meta.json}. Uses a scratch worktree under /tmp, removed.
"""
import json
import os
import shutil
import subprocess
import sys
import xml.etree.ElementTree as ET
from pathlib import Path

src, pid, sid = Path(sys.argv[1]), sys.argv[2], sys.argv[3]
wt = Path(f'/tmp/seedwt/{sid}')
out = Path(f'/verif/seeded/{sid}')
base = json.load(open('/root/.vp/BASELINE.json'))


def sh(cmd, **kw):
    return subprocess.run(cmd, shell=True, capture_output=True, text=True, **kw)


def demo():
    env = dict(os.environ, PYTHONPATH=str(wt), OMP_NUM_THREADS='1', MKL_NUM_THREADS='1', PYTHONDONTWRITEBYTECODE='1')
    try:
        r = subprocess.run(['/venv/bin/python', str(wt / '_demo.py')], cwd=str(wt), env=env, capture_output=True,
                           text=True, timeout=600)
        return r.returncode, (r.stdout + r.stderr)[-1500:]
    except subprocess.TimeoutExpired:
        return 'timeout', ''


wt.parent.mkdir(parents=True, exist_ok=True)
sh(f'git -C /repo worktree remove --force {wt}')
r = sh(f'git -C /repo worktree add --detach {wt} HEAD')
assert r.returncode == 0, r.stderr
meta = {'seed_id': sid, 'property': pid, 'repo_head': sh('git -C /repo rev-parse --short HEAD').stdout.strip()}
try:
    shutil.copy(src / 'demo.py', wt / '_demo.py')
    meta['demo_clean'] = demo()
    r = sh(f'git -C {wt} apply {src / "patch.diff"}')
    if r.returncode != 0:
        r = sh(f'git -C {wt} apply --3way {src / "patch.diff"}')
    meta['patch_applies'] = r.returncode == 0
    if not meta['patch_applies']:
        meta['error'] = r.stderr[-800:]
    else:
        meta['demo_mutant'] = demo()
        (wt / '_demo.py').unlink()
        env = {k: v for k, v in os.environ.items() if k not in ('OMP_NUM_THREADS', 'MKL_NUM_THREADS')}
        env['PYTHONPATH'] = str(wt)
        subprocess.run(f'/venv/bin/python -m pytest -q -p no:cacheprovider --timeout=900 '
                       f'--continue-on-collection-errors --junitxml={wt}/_junit.xml >/dev/null 2>&1',
                       shell=True, cwd=str(wt), env=env)
        passed = set()
        for tc in ET.parse(wt / '_junit.xml').iter('testcase'):
            if not any(c.tag in ('failure', 'error', 'skipped') for c in tc):
                passed.add(tc.get('classname') + '::' + tc.get('name'))
        missing = sorted(set(base['stable_pass']) - passed)
        meta['suite_stable_passed'] = len(set(base['stable_pass']) & passed)
        meta['suite_missing'] = missing
        meta['diff'] = sh(f'git -C {wt} diff --stat').stdout.strip().splitlines()[-1:]
    ok = (meta.get('patch_applies') and meta['demo_clean'][0] == 0 and meta['demo_mutant'][0] not in (0,)
          and not meta['suite_missing'])
    meta['confirmed'] = bool(ok)
    if ok:
        out.mkdir(parents=True, exist_ok=True)
        # store the patch as it applies to the current tree
        (out / 'patch.diff').write_text(sh(f'git -C {wt} diff HEAD -- lazy_dataset').stdout)  # HEAD: a 3-way apply stages its result
        shutil.copy(src / 'demo.py', out / 'demo.py')
        if (src / 'notes.md').exists():
            shutil.copy(src / 'notes.md', out / 'notes.md')
        meta['needs'] = ''
        meta['what_i_ran'] = ('scratch worktree of /repo HEAD: demo on clean tree (exit 0), git apply patch, demo '
                              '(exit != 0), full pytest baseline command (all 204 stable tests still pass)')
        (out / 'meta.json').write_text(json.dumps(meta, indent=1) + '\n')
finally:
    sh(f'git -C /repo worktree remove --force {wt}')
print(json.dumps({k: meta.get(k) for k in ('seed_id', 'confirmed', 'patch_applies', 'demo_clean', 'demo_mutant',
                                            'suite_stable_passed', 'suite_missing', 'error')})[:1500])
