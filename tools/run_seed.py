#!/venv/bin/python
"""Run checks against a seeded change in a scratch worktree (VERIF_REPO) with outputs redirected (VERIF_OUT).

usage: run_seed.py <seed id> <tier> <check id> [<check id> ...]   -> prints one line per check: seed check exit secs sig
"""
import os
import subprocess
import sys
import time
from pathlib import Path

sid, tier, checks = sys.argv[1], sys.argv[2], sys.argv[3:]
ROOT = Path(__file__).resolve().parent.parent  # the /verif checkout this tool lives in (a snapshot under `vp run`)
tag = os.environ.get('SEED_RUN_TAG', '')
wt = Path(f'/tmp/seedrun{tag}/{sid}')
outdir = Path(f'/tmp/seedout{tag}/{sid}')
outdir.mkdir(parents=True, exist_ok=True)
wt.parent.mkdir(parents=True, exist_ok=True)
subprocess.run(f'git -C /repo worktree remove --force {wt}', shell=True, capture_output=True)
subprocess.run(f'git -C /repo worktree add --detach {wt} HEAD', shell=True, capture_output=True, check=True)
try:
    subprocess.run(f'git -C {wt} apply {ROOT}/seeded/{sid}/patch.diff', shell=True, check=True)
    for c in checks:
        env = dict(os.environ, VERIF_REPO=str(wt), VERIF_OUT=str(outdir), VERIF_NO_REGRESS=os.environ.get('VERIF_NO_REGRESS', '1'))
        t0 = time.time()
        r = subprocess.run(['/venv/bin/python', '-m', 'vlib.run', c, '--tier', tier], cwd=str(ROOT), env=env,
                           capture_output=True, text=True)
        sig = [l.strip() for l in r.stdout.splitlines() if l.strip().startswith('signature:')]
        (outdir / f'{c}.log').write_text(r.stdout + r.stderr)
        print(f'{sid} {c} exit={r.returncode} {time.time() - t0:.0f}s {sig[:2]}', flush=True)
finally:
    subprocess.run(f'git -C /repo worktree remove --force {wt}', shell=True, capture_output=True)
