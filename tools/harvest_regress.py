#!/venv/bin/python
"""Turn the shrunk failing cases found against seeded changes into regression replays.

For every seeded change: take the replay files its own-property check wrote under /tmp/seedout*/<seed>/replays/<ID>/,
keep the first one that (a) passes on the clean /repo and (b) still fails in a scratch worktree with the change applied,
and store it as replays/regress/<ID>/<seed>.json.
usage: harvest_regress.py [seed ids...]
"""
import glob
import json
import os
import shutil
import subprocess
import sys
from pathlib import Path

ROOT = Path(__file__).resolve().parent.parent
seeds = sys.argv[1:] or sorted(p.name for p in (ROOT / 'seeded').iterdir() if p.is_dir())


def replay(pid, path, repo=None):
    env = dict(os.environ)
    env.pop('VERIF_REPO', None)
    if repo:
        env['VERIF_REPO'] = repo
    env['VERIF_OUT'] = '/tmp/harvest_out'
    r = subprocess.run(['/venv/bin/python', '-m', 'vlib.run', pid, '--replay', path], cwd=str(ROOT), env=env,
                       capture_output=True, text=True)
    return r.returncode


for sid in seeds:
    meta = json.loads((ROOT / 'seeded' / sid / 'meta.json').read_text())
    pid = meta['property']
    dst = ROOT / 'replays' / 'regress' / pid / f'{sid}.json'
    if dst.exists():
        print(sid, 'already harvested')
        continue
    cands = sorted(glob.glob(f'/tmp/seedout*/{sid}/replays/{pid}/*.json'), key=os.path.getsize)
    if not cands:
        print(sid, 'no replay candidates')
        continue
    wt = f'/tmp/harvestwt/{sid}'
    subprocess.run(f'git -C /repo worktree remove --force {wt}', shell=True, capture_output=True)
    os.makedirs('/tmp/harvestwt', exist_ok=True)
    subprocess.run(f'git -C /repo worktree add --detach {wt} HEAD', shell=True, capture_output=True, check=True)
    ok = None
    try:
        a = subprocess.run(f'git -C {wt} apply {ROOT}/seeded/{sid}/patch.diff', shell=True, capture_output=True)
        if a.returncode != 0:
            print(sid, 'patch does not apply to the current tree')
            continue
        for c in cands[:4]:
            if replay(pid, c) == 0 and replay(pid, c, wt) == 1:
                ok = c
                break
    finally:
        subprocess.run(f'git -C /repo worktree remove --force {wt}', shell=True, capture_output=True)
    if ok:
        dst.parent.mkdir(parents=True, exist_ok=True)
        payload = json.loads(Path(ok).read_text())
        payload['from_seeded_change'] = sid
        dst.write_text(json.dumps(payload, indent=1) + '\n')
        print(sid, 'harvested', dst)
    else:
        print(sid, 'no candidate qualifies (clean pass + mutant fail)')
