"""Pipeline programs: a JSON-serialisable AST, the table of user functions, source specs and slice forms.

A program node is a dict {'op': ..., params..., 'in': node | 'ins': [nodes]}. Sources are specs (never stored values),
so a program survives a JSON round trip unchanged and is the replay unit.
"""
import zlib


# ---------------------------------------------------------------------------------------------------------------------
# exceptions raised by generated user functions: own classes, FilterException and KeyError (a missing field in a user
# function is the everyday case). Never IndexError / StopIteration: BatchDataset interprets IndexError from its input
# as "end of data" and a StopIteration inside a generator is PEP 479 territory (C06 covers it separately).


class VErrA(Exception):
    pass


class VErrB(VErrA):
    pass


class VErrC(Exception):
    pass


class VBase(BaseException):
    pass


class VCustomInit(Exception):
    """An exception class with its own __init__ signature (one argument in, two in .args): the default pickle
    reconstruction `cls(*args)` of such an exception fails - it must never have to travel through pickle unasked."""

    def __init__(self, what='?'):
        super().__init__(what, 'detail')


_CAUSE = []


def _cause_class():
    if not _CAUSE:
        import lazy_dataset

        class VCause(VErrA, lazy_dataset.FilterException, ValueError, LookupError):
            pass
        _CAUSE.append(VCause)
    return _CAUSE[0]


class VChained(Exception):
    """What `raise CorruptExample(x) from err` produces: an exception of an unrelated class whose explicit __cause__ is
    an exception of (nearly) every class the generated catch sets list. It is still a VChained: a catch set catches
    by the class of the exception that was raised, not by what caused it."""

    def __init__(self, *args):
        super().__init__(*args)
        self.__cause__ = _cause_class()('the listed exception this one was raised from')


class VFalsy(Exception):
    """An exception whose instances are falsy (a container-like error, e.g. a collection of validation errors that
    defines __len__): `if error:` is not a test for "an error happened"."""

    def __bool__(self):
        return False

    def __len__(self):
        return 0


def exc_class(name):
    if name == 'FilterException':
        import lazy_dataset
        return lazy_dataset.FilterException
    return {'VErrA': VErrA, 'VErrB': VErrB, 'VErrC': VErrC, 'VBase': VBase, 'VFalsy': VFalsy, 'VCustomInit': VCustomInit, 'VChained': VChained, 'Exception': Exception,
            'ValueError': ValueError, 'LookupError': LookupError, 'KeyError': KeyError,
            'IndexError': IndexError, 'OSError': OSError, 'FileNotFoundError': FileNotFoundError,
            'NotImplementedError': NotImplementedError, 'StopIteration': StopIteration,
            'TypeError': TypeError}[name]


# ---------------------------------------------------------------------------------------------------------------------
# example values a pipeline has to hand through without looking at them (C04-C07 workloads)


class Touchy:
    """An example that refuses ==, bool() and len() - what a numpy array with several elements does for bool(), taken
    to its conclusion. Identified by .tag."""

    def __init__(self, tag):
        self.tag = tag

    def __eq__(self, other):
        raise TypeError('an example was compared with ==')

    __hash__ = None

    def __bool__(self):
        raise TypeError('the truth value of an example was taken')

    def __len__(self):
        raise TypeError('len() of an example was taken')

    def __reduce__(self):
        return Touchy, (self.tag,)

    def __repr__(self):
        return f'Touchy({self.tag!r})'


class Falsy:
    """A falsy, empty-looking example (like an empty batch): bool() is False, len() is 0."""

    def __init__(self, tag):
        self.tag = tag

    def __bool__(self):
        return False

    def __len__(self):
        return 0

    def __reduce__(self):
        return Falsy, (self.tag,)

    def __repr__(self):
        return f'Falsy({self.tag!r})'


VALUE_KINDS = ('tuple', 'ndarray', 'exc', 'touchy', 'falsy', 'mixed')


def value_of(kind, tag):
    """The example of value kind `kind` that carries the plain tuple `tag`."""
    if kind in (None, 'tuple'):
        return tag
    if kind == 'mixed':
        kind = VALUE_KINDS[1 + tag[1] % 4]
    if kind == 'ndarray':
        import numpy as np
        return np.array([7] + [x for x in tag if isinstance(x, int)])  # >= 2 elements: bool() / == are ambiguous
    if kind == 'exc':
        # an exception OBJECT as an ordinary example value (a collected error, say) - also of a type that a catching
        # stage further up is told to catch when it is RAISED
        return (VErrA if tag[1] % 2 == 0 else ValueError)(*tag)
    if kind == 'touchy':
        return Touchy(tag)
    if kind == 'falsy':
        return Falsy(tag)
    raise ValueError(kind)


def token(v):
    """A comparable, printable stand-in of a delivered example (see value_of)."""
    import numpy as np
    if isinstance(v, np.ndarray):
        return ('nd', v.dtype.kind, tuple(v.tolist()))
    if isinstance(v, BaseException):
        return ('exc-object', type(v).__name__, tuple(v.args))
    if isinstance(v, Touchy):
        return ('touchy', v.tag)
    if isinstance(v, Falsy):
        return ('falsy', v.tag)
    if type(v) is tuple:
        return tuple(token(x) for x in v)
    if type(v) is list:
        return [token(x) for x in v]
    return v


def exc_spec(spec):
    """'VErrA' | ['VErrA', 'VErrC'] | None (the library default, FilterException) -> class or tuple of classes."""
    if spec is None:
        return exc_class('FilterException')
    if isinstance(spec, (list, tuple)):
        return tuple(exc_class(s) for s in spec)
    return exc_class(spec)


# ---------------------------------------------------------------------------------------------------------------------
# user functions: total on every value shape, identified by small integers, no use of hash()


def crc(x):
    return zlib.crc32(repr(x).encode())


def f_wrap(i, x):
    return ('m', i, x)


def f_pred(m, r, x):
    return crc(x) % m != r


def f_pred_int(m, r, x):
    """Same selection as f_pred, but a truthy / falsy INT instead of a bool (a common idiom: x % 2)."""
    return (crc(x) - r) % m


def f_pred_seq(m, r, x):
    """Same selection as f_pred, answered with a SEQUENCE: empty for drop, [0] / [0, 0] (truthy, although every
    element is zero, and of varying length) for keep - e.g. `lambda ex: ex['tags']`."""
    return [0] * (1 + crc(('seq', x)) % 2) if f_pred(m, r, x) else []


def f_none(m, r, x):
    """Maps some examples to None (a legitimate example value)."""
    return None if crc(('none', x)) % m == r else x


def f_key(m, x):
    return crc(x) % m


def f_frag(x):
    return [('f', x, j) for j in range(crc(x) % 3)]


def boom_fails(m, r, x):
    return crc(('boom', x)) % m == r


class Raise:
    """Model element: evaluating this position raises exception class `ename` with `args`."""
    __slots__ = ('ename', 'args')

    def __init__(self, ename, args):
        self.ename = ename
        self.args = tuple(args)

    def __repr__(self):
        return f'Raise({self.ename}{self.args!r})'

    def __eq__(self, other):
        return isinstance(other, Raise) and (self.ename, self.args) == (other.ename, other.args)

    def __hash__(self):
        return hash((self.ename, self.args))

    def is_caught_by(self, spec):
        return issubclass(exc_class(self.ename), exc_spec(spec))


def f_boom(m, r, ename, i, x):
    if boom_fails(m, r, x):
        raise exc_class(ename)(crc(x))
    return ('m', i, x)


def boom_model(m, r, ename, i, x):
    if boom_fails(m, r, x):
        return Raise(ename, (crc(x), 'detail') if ename == 'VCustomInit' else (crc(x),))
    return ('m', i, x)


def source_leaf(x):
    """The innermost self-describing source tuple ('s', sid, pos_or_key) inside a (possibly wrapped) value."""
    if isinstance(x, tuple) and len(x) == 3 and x[0] == 's':
        return x
    if isinstance(x, (tuple, list)):
        for y in x:
            r = source_leaf(y)
            if r is not None:
                return r
    return None


def boomset_exc(failmap, x):
    leaf = source_leaf(x)
    if leaf is None:
        return None
    return failmap.get(str(leaf[2]))


def f_boomset(failmap, i, x, noargs=False):
    e = boomset_exc(failmap, x)
    if e is not None:
        if noargs == 'unhashable':
            raise exc_class(e)({'where': [str(source_leaf(x)[2])]})  # an exception that carries a dict (a payload)
        if noargs:
            raise exc_class(e)()  # exceptions without arguments are legal (`raise FilterException`)
        raise exc_class(e)(str(source_leaf(x)[2]))
    return ('m', i, x)


def boomset_model(failmap, i, x, noargs=False):
    e = boomset_exc(failmap, x)
    if e is not None and noargs == 'unhashable':
        return Raise(e, ({'where': [str(source_leaf(x)[2])]},) + (('detail',) if e == 'VCustomInit' else ()))
    if e is not None:
        if e == 'VCustomInit':
            return Raise(e, ('?' if noargs else str(source_leaf(x)[2]), 'detail'))
        return Raise(e, () if noargs else (str(source_leaf(x)[2]),))
    return ('m', i, x)


def f_predraise(m, r, x):
    if not f_pred(m, r, x):
        raise exc_class('FilterException')(crc(x))
    return x


def predraise_model(m, r, x):
    if not f_pred(m, r, x):
        return Raise('FilterException', (crc(x),))
    return x


# ---------------------------------------------------------------------------------------------------------------------
# sources


def src_values(node):
    """The source examples of a leaf node, as (keys or None, values)."""
    sid = node['id']
    na = node.get('none_at')
    if node['op'] == 'list':
        n = node['n']
        if node.get('dup'):
            vals = [('s', sid, i // 2) for i in range(n)]
        else:
            vals = [('s', sid, i) for i in range(n)]
        if na is not None and na < n:
            vals[na] = None
        return None, vals
    if node['op'] == 'dict':
        keys = list(node['keys'])
        vals = [('s', sid, k) for k in keys]
        if na is not None and na < len(keys):
            vals[na] = None
        return keys, vals
    raise ValueError(node['op'])


KEY_ALPHABET = ['a', 'b', 'c', 'd', 'e', 'f', 'g', 'h']
ABSENT_KEYS = ['zz', '', 'A', 'aa', 'b ', 'a\x00', 'c\x00\x00']


# ---------------------------------------------------------------------------------------------------------------------
# traversal helpers

NARY = ('concat', 'intersperse', 'zip', 'key_zip')
LEAVES = ('list', 'dict')


def children(node):
    if node['op'] in LEAVES:
        return []
    if 'ins' in node:
        return list(node['ins'])
    return [node['in']]


def walk(node):
    """Pre-order traversal."""
    yield node
    for c in children(node):
        yield from walk(c)


def depth(node):
    cs = children(node)
    return 1 + (max(depth(c) for c in cs) if cs else 0)


def size(node):
    return sum(1 for _ in walk(node))


def ops(node):
    return [n['op'] for n in walk(node)]


def show(node):
    """Compact one-line rendering for messages."""
    op = node['op']
    if op == 'list':
        return f"L{node['id']}(n={node['n']},{node['mode']}{',dup' if node.get('dup') else ''})"
    if op == 'dict':
        return f"D{node['id']}({''.join(node['keys'])},{node['mode']})"
    params = {k: v for k, v in node.items() if k not in ('op', 'in', 'ins')}
    p = ','.join(f'{k}={v}' for k, v in params.items())
    if 'ins' in node:
        return f"{op}[{p}](" + ', '.join(show(c) for c in node['ins']) + ')'
    return f"{show(node['in'])}.{op}({p})"
