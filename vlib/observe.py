"""Observation of a real dataset and strict comparison with the reference Model (sub-oracles of C01-C03 et al.)."""
import itertools

import numpy as np

from . import progs
from .common import Violation
from .progs import Raise

PASS_THROUGH = (KeyboardInterrupt, SystemExit, GeneratorExit, MemoryError)


def same(a, b):
    """Structural equality, type-strict on containers (batch => list, zip/items => tuple)."""
    if isinstance(a, (list, tuple)) or isinstance(b, (list, tuple)):
        if type(a) is not type(b) or len(a) != len(b):
            return False
        return all(same(x, y) for x, y in zip(a, b))
    if isinstance(a, (np.generic, np.ndarray)) or isinstance(b, (np.generic, np.ndarray)):
        return False
    return type(a) is type(b) and a == b


def same_list(xs, ys):
    return len(xs) == len(ys) and all(same(x, y) for x, y in zip(xs, ys))


def multiset(xs):
    return sorted(repr(x) for x in xs)


def exc_matches(e, r):
    """Does the caught exception `e` correspond to the model element Raise `r`?"""
    return type(e) is progs.exc_class(r.ename) and tuple(e.args) == tuple(r.args)


def describe_exc(e):
    return f'{type(e).__name__}({", ".join(map(repr, getattr(e, "args", ())))[:200]})'


def take(iterable_fn, limit):
    """Iterate at most `limit` elements. Returns (values, exception or None, exhausted)."""
    out = []
    it = None
    try:
        it = iter(iterable_fn())
        for x in it:
            out.append(x)
            if len(out) >= limit:
                return out, None, False
    except PASS_THROUGH:
        raise
    except BaseException as e:  # noqa: user functions may raise BaseException subclasses on purpose
        # drop the traceback: it references the frames of every generator the exception went through, and with them
        # the suspended upstream generators (executors, threads) - a reference cycle that only the cyclic garbage
        # collector would free, at an arbitrary moment in an arbitrary thread
        e.__traceback__ = None
        return out, e, True
    finally:
        # never leave a suspended prefetching generator to the garbage collector: its clean-up joins threads, and a
        # collection that happens to run inside threading's own critical sections (observed on CPython 3.12: inside
        # Thread._bootstrap_inner of a starting pool worker) dead-locks the interpreter
        if it is not None and hasattr(it, 'close'):
            try:
                it.close()
            except Exception:
                pass
    return out, None, True


def expected_stream(vals):
    """Sequential iteration semantics of a model value list: prefix up to the first Raise, then that Raise."""
    out = []
    for v in vals:
        if isinstance(v, Raise):
            return out, v
        out.append(v)
    return out, None


def fmt(x, n=400):
    s = repr(x)
    return s if len(s) <= n else s[:n] + '...'


def check_stream(got, exc, exhausted, m, tag, what, vals=None):
    """Compare one pass of iteration with the model."""
    vals = m.vals if vals is None else vals
    if m.iter_taint and exc is not None and (is_unique_keys_refusal(exc) or type(exc).__name__ in (
            'ItemsNotDefined', 'NotImplementedError')):
        # documented refusal: key iteration below goes through keys() of a node with duplicate keys. It may surface
        # after the keyed parts in front of it were delivered; what was delivered must still be right.
        if m.unordered:
            ok = all(repr(g) in set(multiset(vals)) for g in got) and len(got) <= len(vals)
        else:
            want, _ = expected_stream(vals)
            ok = same_list(got, want[:len(got)])
        if not ok:
            raise Violation(f'{what}-values|{tag}', f'got {fmt(got)} before the refusal; expected a prefix of {fmt(vals)}')
        return
    if m.unordered:
        if exc is not None:
            raise Violation(f'{what}-raised|{tag}', f'iteration raised {describe_exc(exc)} after {fmt(got)}')
        if multiset(got) != multiset(vals):
            raise Violation(f'{what}-multiset|{tag}', f'got {fmt(got)}\nexpected a permutation of {fmt(vals)}')
        return
    want, want_exc = expected_stream(vals)
    if not same_list(got, want):
        extra = f' then {describe_exc(exc)}' if exc is not None else ''
        raise Violation(f'{what}-values|{tag}', f'got      {fmt(got)}{extra}\nexpected {fmt(want)}'
                                                  + (f' then {want_exc}' if want_exc else ''))
    if want_exc is None and exc is not None:
        raise Violation(f'{what}-raised|{tag}', f'iteration raised {describe_exc(exc)} after {fmt(got)}')
    if want_exc is not None:
        if exc is None:
            raise Violation(f'{what}-error-swallowed|{tag}',
                            f'iteration ended normally after {fmt(got)}; expected {want_exc}')
        if not exc_matches(exc, want_exc):
            raise Violation(f'{what}-wrong-error|{tag}', f'raised {describe_exc(exc)}; expected {want_exc}')
    if not exhausted and want_exc is None:
        raise Violation(f'{what}-too-long|{tag}', f'iteration did not stop after {len(got)} examples')


def check_iter(ds, m, tag, passes=2, cycle=True):
    """C01: list(ds) equals the model, repeatably; cycle() repeats it."""
    limit = m.n + 3
    for p in range(passes):
        got, exc, exhausted = take(lambda: ds, limit)
        check_stream(got, exc, exhausted, m, tag, f'iter{p + 1}')
    if passes >= 2 and m.n >= 2:
        # a pass that is abandoned after its first example, then a third complete pass: nothing may be left over
        take(lambda: ds, 1)
        got, exc, exhausted = take(lambda: ds, limit)
        check_stream(got, exc, exhausted, m, tag, 'iter3')
    if cycle and m.n >= 1 and not m.has_raise and not m.iter_taint:
        k = 2 * m.n + 1
        try:
            cyc = ds.cycle()
        except PASS_THROUGH:
            raise
        except BaseException as e:
            raise Violation(f'cycle-construct|{tag}', describe_exc(e))
        cyc_it = iter(cyc)
        try:
            got, exc, _ = take(lambda: itertools.islice(cyc_it, k), k + 1)
        finally:
            if hasattr(cyc_it, 'close'):
                cyc_it.close()
        if exc is not None:
            raise Violation(f'cycle-raised|{tag}', describe_exc(exc))
        if m.unordered:
            epochs = [got[0:m.n], got[m.n:2 * m.n]]
            for ep in epochs:
                if multiset(ep) != multiset(m.vals):
                    raise Violation(f'cycle-multiset|{tag}', f'epoch {fmt(ep)} vs {fmt(m.vals)}')
        else:
            want = (m.vals * 3)[:k]
            if not same_list(got, want):
                raise Violation(f'cycle-values|{tag}', f'got {fmt(got)}\nexpected {fmt(want)}')
            if m.cap_items == 'req' and m.keys is not None and not m.taint and len(m.keys) == m.n:
                # key iteration through the cycle and a map above it goes round as well (the keys repeat)
                it = None
                try:
                    it = iter(cyc.map(lambda x: x).items())
                    pairs, exc, _ = take(lambda: itertools.islice(it, k), k + 1)
                finally:
                    if it is not None and hasattr(it, 'close'):
                        it.close()
                wantp = (list(zip(m.keys, m.vals)) * 3)[:k]
                if exc is not None and not is_documented_refusal(exc):
                    raise Violation(f'cycle-items-raised|{tag}', describe_exc(exc))
                if exc is None and not same_list(pairs, wantp):
                    raise Violation(f'cycle-items|{tag}', f'cycle().map(f).items() yielded {fmt(pairs)}\nexpected '
                                                          f'{fmt(wantp)}')


INT_TYPES = (int, np.int64, np.int32)
UINT_TYPES = (np.uint8, np.uint64)  # unsigned numpy integers are integers too (non-negative indices only)
SMALL_TYPES = (np.int8,)  # fixed-width arithmetic on the index must not overflow silently


def is_unique_keys_refusal(e):
    return isinstance(e, AssertionError) and 'Keys are not unique' in str(e)


def is_documented_refusal(e):
    """The loud refusals the library documents for key operations that cannot be answered."""
    return is_unique_keys_refusal(e) or type(e).__name__ in ('ItemsNotDefined', 'NotImplementedError')


def check_len_index(ds, m, tag, require_indexable=None):
    """C02: len, every index in [-len-2, len+2) in three integer types, IndexError outside."""
    n = m.n
    # "a dataset that offers a length ... reports exactly the number of examples it yields": a length that is offered
    # must be right whether or not the stage documents one; a documented one must be offered
    try:
        got = len(ds)
    except PASS_THROUGH:
        raise
    except BaseException as e:
        if m.sized:
            raise Violation(f'len-raised|{tag}', f'len() raised {describe_exc(e)}; expected {n}')
    else:
        if got != n or isinstance(got, bool):
            raise Violation(f'len-wrong|{tag}', f'len() == {got!r}, iteration yields {n}'
                                                + ('' if m.sized else ' (stage documents no length)'))
    try:
        reported = ds.indexable
        if callable(reported):
            reported = reported()
    except PASS_THROUGH:
        raise
    except BaseException as e:
        raise Violation(f'indexable-raised|{tag}', describe_exc(e))
    if require_indexable is None:
        require_indexable = m.indexable
    if require_indexable and not reported:
        raise Violation(f'indexable-false|{tag}', 'dataset documented as indexable reports indexable == False')
    if not reported or not m.sized or m.unordered:
        return False
    accept_taint = m.int_taint
    if n <= 1000:
        sweep = range(-n - 2, n + 2)
    else:  # long datasets: both edges, the neighbourhood of powers of two and a stride through the middle
        pts = set(range(-n - 2, -n + 40)) | set(range(n - 40, n + 2)) | set(range(-40, 40)) | set(range(0, n, 997))
        for e in range(7, 18):
            pts |= {2 ** e - 1, 2 ** e, 2 ** e + 1, -(2 ** e), -(2 ** e) - 1}
        sweep = sorted(p for p in pts if -n - 2 <= p < n + 2)
    for i in sweep:
        inside = -n <= i < n
        for T in (INT_TYPES + SMALL_TYPES + UINT_TYPES if i >= 0 else INT_TYPES + SMALL_TYPES):
            if T not in (int,) and not (np.iinfo(T).min <= i <= np.iinfo(T).max):
                continue  # not representable in this type
            try:
                v = ds[T(i)]
            except PASS_THROUGH:
                raise
            except BaseException as e:
                if accept_taint and (is_unique_keys_refusal(e) or (
                        isinstance(e, NotImplementedError) and 'keys is not implemented' in str(e))):
                    continue
                if not inside:
                    if isinstance(e, IndexError):
                        continue
                    raise Violation(f'index-outside-wrong-exception|{tag}',
                                    f'ds[{T.__name__}({i})] with len {n} raised {describe_exc(e)}, not IndexError')
                want = m.vals[i]
                if isinstance(want, Raise) and exc_matches(e, want):
                    continue
                raise Violation(f'index-raised|{tag}',
                                f'ds[{T.__name__}({i})] with len {n} raised {describe_exc(e)}; expected {fmt(want)}')
            if not inside:
                raise Violation(f'index-outside-returned|{tag}',
                                f'ds[{T.__name__}({i})] with len {n} returned {fmt(v)} instead of raising IndexError')
            want = m.vals[i]
            if isinstance(want, Raise):
                raise Violation(f'index-error-swallowed|{tag}', f'ds[{i}] returned {fmt(v)}; expected {want}')
            if not same(v, want):
                raise Violation(f'index-value|{tag}',
                                f'ds[{T.__name__}({i})] == {fmt(v)}; the {i % n}-th iterated example is {fmt(want)}')
    return True


def refusal_ok(e, m, cap):
    """Is the exception an acceptable loud refusal for a capability of level `cap`?"""
    if cap == 'req':
        return False
    if m.taint and is_unique_keys_refusal(e):
        return True
    return isinstance(e, Exception)


def check_keys(ds, m, tag, sibling_keys=()):
    """C03: keys(), items(), ds[key] for present and absent keys."""
    # keys()
    try:
        ks = ds.keys()
    except PASS_THROUGH:
        raise
    except BaseException as e:
        if m.cap_keys == 'req' or not refusal_ok(e, m, m.cap_keys):
            raise Violation(f'keys-raised|{tag}', f'keys() raised {describe_exc(e)}; expected {m.keys}')
        ks = None
    else:
        if m.cap_keys == 'no' or m.keys is None:
            raise Violation(f'keys-returned|{tag}', f'keys() returned {fmt(ks)} for a dataset without keys')
        if not isinstance(ks, (tuple, list)) or list(ks) != list(m.keys):
            raise Violation(f'keys-wrong|{tag}', f'keys() == {fmt(ks)}; iteration order keys are {m.keys}')

    # items()
    pairs_model = None if m.keys is None else [
        (v if isinstance(v, Raise) else (k, v)) for k, v in zip(m.keys, m.vals)]
    limit = m.n + 3
    got, exc, exhausted = take(lambda: ds.items(), limit)
    refused = (exc is not None and not got and not (m.has_raise and pairs_model and isinstance(pairs_model[0], Raise)
                                                    and exc_matches(exc, pairs_model[0])))
    if m.cap_items == 'no' or m.keys is None:
        # must end in a loud refusal (a concatenation may yield the pairs of its keyed parts first)
        if exc is None:
            raise Violation(f'items-returned|{tag}', f'items() yielded {fmt(got)} for a dataset without items')
    elif refused and refusal_ok(exc, m, m.cap_items):
        pass
    elif exc is not None and m.cap_items == 'opt' and (
            (m.taint and is_unique_keys_refusal(exc))
            or type(exc).__name__ in ('ItemsNotDefined', 'NotImplementedError')):
        want, _ = expected_stream(pairs_model)
        if not m.unordered and not same_list(got, want[:len(got)]):
            raise Violation(f'items-values|{tag}', f'got {fmt(got)} before the refusal; expected a prefix of {fmt(want)}')
    else:
        check_stream(got, exc, exhausted, m, tag, 'items', vals=pairs_model)
        for pair in got:
            # every yielded example carries its own key (decidable from the self-describing value)
            if not (isinstance(pair, tuple) and len(pair) == 2):
                raise Violation(f'items-shape|{tag}', f'items() yielded {fmt(pair)}')

    # ds[key]
    lookup = m.key_lookup()
    if m.cap_str != 'no' and m.keys is not None:
        for k, want in lookup.items():
            try:
                v = ds[k]
            except PASS_THROUGH:
                raise
            except BaseException as e:
                if isinstance(want, Raise) and exc_matches(e, want):
                    continue
                if refusal_ok(e, m, m.cap_str):
                    continue
                raise Violation(f'key-lookup-raised|{tag}', f'ds[{k!r}] raised {describe_exc(e)}; expected {fmt(want)}')
            if isinstance(want, Raise):
                raise Violation(f'key-lookup-error-swallowed|{tag}', f'ds[{k!r}] returned {fmt(v)}; expected {want}')
            if not same(v, want):
                raise Violation(f'key-lookup-value|{tag}', f'ds[{k!r}] == {fmt(v)}; expected {fmt(want)}')
    absent = [k for k in list(progs.ABSENT_KEYS) + list(sibling_keys) if k not in lookup]
    if m.keys:
        near = m.keys[0] + '_'
        if near not in lookup:
            absent.append(near)
    for k in absent:
        try:
            v = ds[k]
        except PASS_THROUGH:
            raise
        except BaseException:
            continue
        raise Violation(f'absent-key-returned|{tag}', f'ds[{k!r}] returned {fmt(v)}; the dataset has keys {m.keys}')


def check_repr(ds, tag):
    try:
        repr(ds)
    except PASS_THROUGH:
        raise
    except BaseException as e:
        raise Violation(f'repr-raised|{tag}', describe_exc(e))
