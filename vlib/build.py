"""AST -> real lazy_dataset objects. Every user function is instrumented (call log), sources may be logging containers."""
import functools
import threading

import numpy as np

from . import progs


class LoggingList(list):
    """A list that records every element access (used as raw source where 'reads no example' must be observable)."""

    def __init__(self, it, log, sid):
        super().__init__(it)
        self._log, self._sid = log, sid

    def __getitem__(self, i):
        v = super().__getitem__(i)
        if not isinstance(i, slice):
            self._log.append((self._sid, 'read', v))
        return v

    def __iter__(self):
        for i in range(len(self)):
            yield self[i]


class LoggingDict(dict):
    def __init__(self, it, log, sid):
        super().__init__(it)
        self._log, self._sid = log, sid

    def __getitem__(self, k):
        v = super().__getitem__(k)
        self._log.append((self._sid, 'read', v))
        return v


class Spy:
    """Identity function with an independent call counter (C20)."""

    def __init__(self, sid):
        self.sid = sid
        self.calls = 0

    def __call__(self, x):
        self.calls += 1  # under the GIL; exactness is only required without multi-worker prefetch
        return x

    def __repr__(self):
        return f'Spy({self.sid})'


class Env:
    """Per-build context: call log shared by every instrumented function of one built pipeline."""

    def __init__(self, raw_sources=False, on_call=None):
        self.log = []
        self.raw_sources = raw_sources
        self.on_call = on_call
        self.nodes = {}  # node path -> built dataset
        self._counter = 0

    def fn(self, sid, f):
        log = self.log
        on_call = self.on_call

        def call(x):
            log.append((sid, 'call', x))
            if on_call is not None:
                on_call(sid, x)
            return f(x)
        call.__name__ = f'fn_{sid}'
        return call


def make_form(form, ds=None):
    k = form['k']
    if k == 'slice':
        if form.get('as') == 'np':
            a, b, c = (None if v is None else np.int64(v) for v in (form['a'], form['b'], form['c']))
            return slice(a, b, c)
        return slice(form['a'], form['b'], form['c'])
    if k == 'ilist':
        idx, how = list(form['idx']), form.get('as', 'list')
        if how == 'list':
            return idx
        if how == 'tuple':
            return tuple(idx)
        if how == 'nested':
            return (idx,)
        if how == 'nested_np':
            return (np.array(idx, dtype=np.int64),)  # what np.nonzero(mask) / np.where(cond) hand over
        if how == 'nested_list_np':
            return [np.array(idx, dtype=np.int64)]
        if how == 'nested_list':
            return [idx]
        if how == 'np64':
            return np.array(idx, dtype=np.int64)
        if how == 'np32':
            return np.array(idx, dtype=np.int32)
        if how == 'npu64':
            return np.array(idx, dtype=np.uint64 if all(i >= 0 for i in idx) else np.int64)
        raise ValueError(how)
    if k == 'mask':
        how = form.get('as', 'np')
        if how == 'list':
            return [bool(b) for b in form['bits']]  # a boolean mask given as a plain Python list
        if how == 'tuple':
            return tuple(bool(b) for b in form['bits'])
        return np.array(form['bits'], dtype=bool)
    if k == 'keys':
        return list(form['keys']) if form.get('as', 'list') == 'list' else tuple(form['keys'])
    raise ValueError(k)


def build(node, env=None, path='r'):
    """Returns the real dataset for `node`. env.nodes[path] holds every intermediate dataset."""
    import lazy_dataset
    if env is None:
        env = Env()
    op = node['op']

    def done(ds):
        env.nodes[path] = ds
        return ds

    if op == 'list':
        _, vals = progs.src_values(node)
        if env.raw_sources:
            return done(lazy_dataset.core.ListDataset(LoggingList(vals, env.log, path)))
        return done(lazy_dataset.new(list(vals), immutable_warranty=node['mode']))
    if op == 'dict':
        keys, vals = progs.src_values(node)
        if env.raw_sources:
            return done(lazy_dataset.core.DictDataset(LoggingDict(zip(keys, vals), env.log, path)))
        if node.get('as_defaultdict'):
            import collections
            dd = collections.defaultdict(dict)  # the caller's mapping type is the caller's business
            dd.update(zip(keys, vals))
            return done(lazy_dataset.new(dd, immutable_warranty=node['mode']))
        return done(lazy_dataset.new(dict(zip(keys, vals)), immutable_warranty=node['mode']))

    if op in progs.NARY:
        if node.get('share'):
            # structurally equal inputs are ONE object (a.concatenate(b, a)): aliasing between the inputs of a stage
            import json
            memo, parts = {}, []
            for i, c in enumerate(node['ins']):
                k = json.dumps(c, sort_keys=True)
                if k not in memo:
                    memo[k] = (build(c, env, f'{path}.{i}'), f'{path}.{i}')
                first = memo[k][1]
                for q, d in list(env.nodes.items()):
                    if q == first or q.startswith(first + '.'):
                        env.nodes[f'{path}.{i}' + q[len(first):]] = d  # the duplicate's sub-paths are the same objects
                parts.append(memo[k][0])
        else:
            parts = [build(c, env, f'{path}.{i}') for i, c in enumerate(node['ins'])]
        how = node.get('how', 'method')
        if op == 'concat':
            if how == 'method':
                return done(parts[0].concatenate(*parts[1:]))
            if how == 'method_list':
                return done(parts[0].concatenate(parts[1:]))
            return done(lazy_dataset.concatenate(*parts))
        if op == 'intersperse':
            if how == 'method':
                return done(parts[0].intersperse(*parts[1:]))
            return done(lazy_dataset.intersperse(*parts))
        if op == 'zip':
            if how == 'method':
                return done(parts[0].zip(*parts[1:]))
            return done(lazy_dataset.zip(*parts))
        if op == 'key_zip':
            if how == 'method':
                return done(parts[0].key_zip(*parts[1:]))
            return done(lazy_dataset.key_zip(*parts))

    ds = build(node['in'], env, path + '.0')
    if op == 'map':
        i = node['fn']
        if node.get('nested'):
            # the user function itself runs a small lazy_dataset pipeline (a loader that batches its own chunks):
            # same result as the plain function, computed through a nested dataset
            def nested(x, i=i):
                inner = lazy_dataset.new([x, x]).map(functools.partial(progs.f_wrap, i))
                return list(inner.prefetch(1, 1) if node['nested'] == 'prefetch' else inner)[1]
            return done(ds.map(env.fn(path, nested)))
        return done(ds.map(env.fn(path, functools.partial(progs.f_wrap, i))))
    if op == 'parmap':
        i = node['fn']
        return done(ds.map(env.fn(path, functools.partial(progs.f_wrap, i)), num_workers=node['workers'],
                           buffer_size=node['buffer'], backend='t'))
    if op == 'boom':
        return done(ds.map(env.fn(path, functools.partial(progs.f_boom, node['m'], node['r'], node['exc'],
                                                          node['fn']))))
    if op == 'spy':
        spy = Spy(node['sid'])
        env.spies = getattr(env, 'spies', {})
        env.spies[node['sid']] = spy
        return done(ds.map(spy))
    if op == 'mapc':
        def comp(v, fns=tuple(node['fns'])):
            for i in fns:
                v = progs.f_wrap(i, v)
            return v
        return done(ds.map(env.fn(path, comp)))
    if op == 'filter_in':
        allowed = set(node['reprs'])
        return done(ds.filter(env.fn(path, lambda x: repr(x) in allowed)))
    if op == 'boomset':
        return done(ds.map(env.fn(path, functools.partial(progs.f_boomset, node['fail'], node['fn'],
                                                          noargs=node.get('noargs', False)))))
    if op == 'predraise':
        return done(ds.map(env.fn(path, functools.partial(progs.f_predraise, node['m'], node['r']))))
    if op == 'frag':
        return done(ds.map(env.fn(path, progs.f_frag)))
    if op == 'batch_map':
        i = node['fn']
        if node.get('workers'):
            return done(ds.batch_map(env.fn(path, functools.partial(progs.f_wrap, i)), num_workers=node['workers'],
                                     buffer_size=node['buffer'], backend='t'))
        return done(ds.batch_map(env.fn(path, functools.partial(progs.f_wrap, i))))
    if op == 'nonemap':
        return done(ds.map(env.fn(path, functools.partial(progs.f_none, node['m'], node['r']))))
    if op == 'filter':
        pred = progs.f_pred_seq if node.get('int') == 'seq' else progs.f_pred_int if node.get('int') else progs.f_pred
        # the flag as callers produce it: a bool, an int, or a numpy bool from a comparison
        lazy = {'int': int, 'np': np.bool_}.get(node.get('lazy_as'), bool)(node['lazy'])
        return done(ds.filter(env.fn(path, functools.partial(pred, node['m'], node['r'])), lazy=lazy))
    if op == 'slice':
        form = make_form(node['form'])
        out = ds[form]
        if isinstance(form, np.ndarray) and form.dtype != bool and form.size:
            form[...] = 0  # the caller re-uses its index buffer afterwards: the selection must not follow it
        for lst in ([form] if isinstance(form, list) else [x for x in form if isinstance(x, list)]
                    if isinstance(form, tuple) else []):
            if lst:  # ... the same for a list of indices / keys / mask bits the caller keeps using
                lst.reverse()
                lst.append(lst[0])
                del lst[0]
        return done(out)
    if op == 'shuffle_once':
        return done(ds.shuffle(False, rng=np.random.RandomState(node['seed'])))
    if op == 'sort':
        kw = {}
        if node.get('sort_fn') == 'stable_wrapper':
            kw['sort_fn'] = lambda it, reverse=False: sorted(list(it), reverse=reverse)
        elif node.get('sort_fn') == 'inverting':
            # a caller-supplied ordering that differs from the builtin one (like natsorted does): largest first
            kw['sort_fn'] = lambda it, reverse=False: sorted(list(it), reverse=not reverse)
        if node['key'] is None:
            return done(ds.sort(reverse=node['reverse'], **kw))
        if node.get('wrap') is not None:
            w = node['wrap']
            return done(ds.sort(env.fn(path, lambda x: progs.f_key(node['key'], progs.f_wrap(w, x))),
                                reverse=node['reverse'], **kw))
        return done(ds.sort(env.fn(path, functools.partial(progs.f_key, node['key'])), reverse=node['reverse'],
                            **kw))
    if op == 'shard':
        if node.get('via') == 'split':
            return done(ds.split(node['k'])[node['i']])
        if node.get('via') == 'shard_neg':
            return done(ds.shard(node['k'], node['i'] - node['k']))  # shard(k, i) == split(k)[i], also for i < 0
        return done(ds.shard(node['k'], node['i']))
    if op == 'batch':
        dl = node['drop_last']
        if node.get('dl_as') == 'np':
            dl = np.bool_(dl)  # the flag as a numpy bool (from a comparison) or an int
        elif node.get('dl_as') == 'int':
            dl = int(dl)
        return done(ds.batch(node['n'], drop_last=dl))
    if op == 'unbatch':
        return done(ds.unbatch())
    if op == 'items':
        return done(ds.items())
    if op == 'tile':
        if node.get('shuffle'):
            if 'np_seed' in node:
                np.random.seed(node['np_seed'])
            return done(ds.tile(node['r'], shuffle=True))  # draws from the global numpy generator
        return done(ds.tile(node['r']))
    if op == 'concat_same':
        # the very same dataset object r times (what tile(r) is documented to be)
        return done(ds if node['r'] == 1 else lazy_dataset.concatenate(*([ds] * node['r'])))
    if op == 'concat_shuffled':
        parts = [ds.shuffle() for _ in range(node['r'])]
        return done(parts[0] if len(parts) == 1 else lazy_dataset.concatenate(*parts))
    if op == 'cache':
        return done(ds.cache(lazy=node['lazy']))
    if op == 'catch':
        spec = node['exc']
        kw = {'warn': True} if node.get('warn') else {}
        if spec is None:
            return done(ds.catch(**kw))
        return done(ds.catch(progs.exc_spec(spec), **kw))
    if op == 'copy':
        return done(ds.copy(freeze=node['freeze']))
    if op == 'prefetch':
        spec = node.get('catch', False)
        if spec is False:
            return done(ds.prefetch(node['workers'], node['buffer']))
        cfe = True if spec is True else progs.exc_spec(spec)
        return done(ds.prefetch(node['workers'], node['buffer'], catch_filter_exception=cfe))
    def make_rng():
        # 'gen' = numpy Generator (default_rng), otherwise the legacy RandomState
        if getattr(env, 'share_rng', False):
            # every random stage of the pipeline draws from ONE generator object (rng=my_rng passed everywhere)
            if getattr(env, 'the_rng', None) is None:
                env.the_rng = np.random.default_rng(7) if node.get('rng') == 'gen' else np.random.RandomState(7)
            return env.the_rng
        return np.random.default_rng(node['seed']) if node.get('rng') == 'gen' else np.random.RandomState(node['seed'])
    if op == 'reshuffle':
        return done(ds.shuffle(True, rng=make_rng()))
    if op == 'local_shuffle':
        return done(ds.shuffle(True, rng=make_rng(), buffer_size=node['buffer']))
    if op == 'apply':
        # lazy apply: the function is applied to a frozen copy at every iteration
        if node['fn'] == 'map':
            f = env.fn(path, functools.partial(progs.f_wrap, 0))
            return done(ds.apply(lambda d: d.map(f), lazy=True))
        rng = make_rng()
        if node['fn'] == 'shuffle':
            return done(ds.apply(lambda d: d.shuffle(True, rng=rng), lazy=True))
        return done(ds.apply(lambda d: d.shuffle(True, rng=rng, buffer_size=2), lazy=True))
    raise ValueError(op)
