"""Hypothesis strategies for pipeline programs. Construction over rejection: the reference Model of the partial
program decides which stages are applicable and which parameter ranges are valid."""
from hypothesis import strategies as st

from . import progs
from .refmodel import Invalid, ev

ALL_OPS = {
    'nonemap', 'map', 'parmap', 'boom', 'frag', 'batch_map', 'filter_lazy', 'filter_eager', 'slice', 'shuffle_once', 'sort',
    'shard', 'batch', 'unbatch', 'items', 'tile', 'cache_lazy', 'cache_eager', 'catch', 'copy', 'prefetch',
    'reshuffle', 'local_shuffle', 'concat', 'intersperse', 'zip', 'key_zip',
}
EXC_NAMES = ['FilterException', 'VErrA', 'VErrB', 'VErrC', 'KeyError']
CATCH_SPECS = [None, 'VErrA', ['VErrA', 'VErrC'], 'Exception', 'VErrB', ['FilterException', 'VErrB']]

PROFILES = {
    'full': ALL_OPS,
    'noraise': ALL_OPS - {'boom'},
    'deterministic': ALL_OPS - {'boom', 'reshuffle', 'local_shuffle'},
    'indexable': {'nonemap', 'map', 'slice', 'shuffle_once', 'sort', 'shard', 'batch', 'items', 'tile', 'cache_lazy',
                  'cache_eager', 'copy', 'concat', 'intersperse', 'zip', 'key_zip', 'filter_eager', 'batch_map'},
    'lazy': {'map', 'filter_lazy', 'slice', 'batch', 'unbatch', 'items', 'tile', 'cache_lazy', 'catch', 'copy',
             'concat', 'intersperse', 'zip', 'key_zip', 'frag', 'batch_map', 'prefetch1', 'local_shuffle',
             'reshuffle'},
}


class Ctx:
    def __init__(self, modes=('pickle', 'copy', 'wu'), max_n=6, dict_weight=2):
        self.sid = 0
        self.dict_weight = dict_weight
        self.modes = modes
        self.max_n = max_n

    def next_sid(self):
        self.sid += 1
        return self.sid


@st.composite
def st_source(draw, ctx, n=None, kind=None, keys=None, min_n=0):
    sid = ctx.next_sid()
    kind = kind or draw(st.sampled_from(['list'] + ['dict'] * ctx.dict_weight))
    if kind == 'list':
        if n is None:
            n = draw(st.integers(min_n, ctx.max_n))
        modes = [m for m in ctx.modes if not (m == 'wu' and n == 0)]
        mode = draw(st.sampled_from(modes))
        out = {'op': 'list', 'id': sid, 'n': n, 'mode': mode, 'dup': draw(st.booleans()) if n >= 2 else False}
        if n and draw(st.integers(0, 7)) == 0:
            out['none_at'] = draw(st.integers(0, n - 1))  # None is a legitimate stored example
        return out
    if keys is None:
        if n is None:
            n = draw(st.integers(min_n, ctx.max_n))
        base = draw(st.permutations(progs.KEY_ALPHABET))[:n]
        suffix = draw(st.sampled_from(['', '', str(sid), '_key', '\x00', ' ', '\u00e9/.']))  # keys are arbitrary str
        keys = [k + suffix for k in base]
    mode = draw(st.sampled_from([m for m in ctx.modes if m != 'wu'] or ['pickle']))
    out = {'op': 'dict', 'id': sid, 'keys': list(keys), 'mode': mode}
    if draw(st.integers(0, 5)) == 0:
        out['as_defaultdict'] = True
    if keys and draw(st.integers(0, 7)) == 0:
        out['none_at'] = draw(st.integers(0, len(keys) - 1))
    return out


def st_slice_form(n, m):
    bound = st.one_of(st.none(), st.integers(-n - 1, n + 1))
    step = st.sampled_from([None, None, 1, 1, -1, 2, -2, 3, -3])
    # bounds and steps as Python ints or (what arithmetic on lengths produces) numpy integers
    forms = [st.builds(lambda a, b, c, how: dict({'k': 'slice', 'a': a, 'b': b, 'c': c}, **({'as': how} if how else {})),
                       bound, bound, step, st.sampled_from([None, None, None, 'np']))]
    if n >= 1:
        idx = st.lists(st.integers(-n, n - 1), min_size=0, max_size=n + 2)
    else:
        idx = st.just([])
    forms.append(st.builds(lambda i, how: {'k': 'ilist', 'idx': i, 'as': how}, idx,
                           st.sampled_from(['list', 'tuple', 'nested', 'np64', 'np32', 'npu64', 'nested_np',
                                            'nested_list_np', 'nested_list'])))
    forms.append(st.builds(lambda bits, how: {'k': 'mask', 'bits': bits, 'as': how},
                           st.lists(st.booleans(), min_size=n, max_size=n), st.sampled_from(['np', 'np', 'list', 'tuple'])))
    if m.cap_keys == 'req' and not m.taint and m.keys and len(set(m.keys)) == len(m.keys):
        forms.append(st.builds(lambda ks, how: {'k': 'keys', 'keys': ks, 'as': how},
                               st.lists(st.sampled_from(list(m.keys)), min_size=1, max_size=n + 1),
                               st.sampled_from(['list', 'tuple'])))
    return st.one_of(forms)


def all_batches(m):
    return all(isinstance(v, (list, progs.Raise)) for v in m.vals)


def all_seqs(m):
    return all(isinstance(v, (list, tuple, progs.Raise)) for v in m.vals)


def candidates(m, allowed):
    """Operations applicable to a dataset with model `m` (documented preconditions)."""
    out = []
    from . import refmodel
    hr, un = m.has_raise or m.iter_taint, m.unordered and refmodel.STRICT_UNORDERED[0]

    def add(op, cond=True, weight=1):
        if op in allowed and cond:
            out.extend([op] * weight)

    add('map', weight=2)
    add('nonemap', m.n >= 1)
    add('parmap', True)
    add('boom', not un and m.n >= 1)
    add('frag', not un)
    add('batch_map', all_batches(m) and m.n >= 1 and not un)
    add('filter_lazy', weight=2)
    add('filter_eager', m.indexable and not hr)
    add('slice', m.indexable, weight=3)
    add('shuffle_once', m.indexable and m.sized)
    add('sort', m.indexable and not hr)
    add('shard', m.indexable and m.n >= 1)
    add('batch', not un, weight=2)
    add('unbatch', all_seqs(m) and m.n >= 1)
    add('items', m.cap_items != 'no' and m.keys is not None, weight=2)
    add('tile', not un)
    add('cache_lazy', m.indexable)
    add('cache_eager', not hr and not un and m.cap_items != 'opt' and not (m.taint and m.cap_items != 'req'))
    add('catch', m.fidx and m.sized)
    add('copy')
    add('prefetch', True)
    add('prefetch1', True)
    add('reshuffle', m.indexable and m.sized and not hr)
    add('local_shuffle', not hr)
    add('apply', not hr)
    add('concat', not un, weight=2)
    add('intersperse', not un and m.sized and m.n >= 1)
    add('zip', not un and m.sized)
    add('key_zip', not un and m.cap_keys == 'req' and m.cap_str == 'req' and not m.taint and m.keys is not None)
    return out


@st.composite
def st_stage(draw, op, node, m, ctx, allowed, budget):
    n = m.n
    if op == 'map':
        out = {'op': 'map', 'fn': draw(st.integers(0, 3)), 'in': node}
        if draw(st.integers(0, 9)) == 0:
            out['nested'] = draw(st.sampled_from(['plain', 'prefetch']))
        return out
    if op == 'nonemap':
        mm = draw(st.integers(1, 3))
        return {'op': 'nonemap', 'm': mm, 'r': draw(st.integers(0, mm - 1)), 'in': node}
    if op == 'parmap':
        w = draw(st.integers(1, 3))
        return {'op': 'parmap', 'fn': draw(st.integers(0, 3)), 'workers': w, 'buffer': draw(st.integers(w, 4)),
                'in': node}
    if op == 'boom':
        mm = draw(st.integers(2, 4))
        return {'op': 'boom', 'm': mm, 'r': draw(st.integers(0, mm - 1)), 'exc': draw(st.sampled_from(EXC_NAMES)),
                'fn': draw(st.integers(0, 3)), 'in': node}
    if op == 'frag':
        return {'op': 'frag', 'in': node}
    if op == 'batch_map':
        out = {'op': 'batch_map', 'fn': draw(st.integers(0, 3)), 'in': node}
        if 'parmap' in allowed and draw(st.integers(0, 2)) == 0:
            w = draw(st.integers(1, 2))
            out.update(workers=w, buffer=draw(st.integers(w, 3)))
        return out
    if op in ('filter_lazy', 'filter_eager'):
        mm = draw(st.integers(2, 3))
        return {'op': 'filter', 'm': mm, 'r': draw(st.integers(0, mm - 1)), 'lazy': op == 'filter_lazy',
                'int': draw(st.sampled_from([False, True, 'seq'])),
                'lazy_as': draw(st.sampled_from([None, None, 'int', 'np'])), 'in': node}
    if op == 'slice':
        return {'op': 'slice', 'form': draw(st_slice_form(n, m)), 'in': node}
    if op == 'shuffle_once':
        return {'op': 'shuffle_once', 'seed': draw(st.integers(0, 50)), 'in': node}
    if op == 'sort':
        keyless_ok = m.cap_keys == 'req' and not m.taint and m.keys is not None
        key = draw(st.sampled_from([None, 1, 2, 3] if keyless_ok else [1, 2, 3]))
        return {'op': 'sort', 'key': key, 'reverse': draw(st.booleans()),
                'sort_fn': draw(st.sampled_from([None, 'stable_wrapper', 'inverting'])), 'in': node}
    if op == 'shard':
        k = draw(st.integers(1, n))
        return {'op': 'shard', 'k': k, 'i': draw(st.integers(0, k - 1)), 'via': draw(st.sampled_from(['shard', 'split', 'shard_neg'])),
                'in': node}
    if op == 'batch':
        out = {'op': 'batch', 'n': draw(st.integers(1, 4)), 'drop_last': draw(st.booleans()), 'in': node}
        out['dl_as'] = draw(st.sampled_from(['bool', 'bool', 'np', 'int']))
        return out
    if op == 'unbatch':
        return {'op': 'unbatch', 'in': node}
    if op == 'items':
        return {'op': 'items', 'in': node}
    if op == 'tile':
        return {'op': 'tile', 'r': draw(st.sampled_from([1, 2, 2, 3, 3, 9, 11])), 'in': node}
    if op in ('cache_lazy', 'cache_eager'):
        return {'op': 'cache', 'lazy': op == 'cache_lazy', 'in': node}
    if op == 'catch':
        out = {'op': 'catch', 'exc': draw(st.sampled_from(CATCH_SPECS)), 'in': node}
        if draw(st.integers(0, 2)) == 0:
            out['warn'] = True
        return out
    if op == 'copy':
        return {'op': 'copy', 'freeze': draw(st.booleans()), 'in': node}
    if op in ('prefetch', 'prefetch1'):
        multi_ok = op == 'prefetch' and m.fidx and m.sized
        w = draw(st.integers(1, 3)) if multi_ok else 1
        catch_ok = m.indexable and m.sized
        spec = draw(st.sampled_from([False, False, True, 'VErrA', ['VErrA', 'VErrC']])) if catch_ok else False
        return {'op': 'prefetch', 'workers': w, 'buffer': draw(st.integers(w, 4)), 'catch': spec, 'in': node}
    if op == 'apply':
        fns = ['map', 'local'] + (['shuffle'] if (m.fidx and m.sized) else [])
        return {'op': 'apply', 'fn': draw(st.sampled_from(fns)), 'seed': draw(st.integers(0, 50)),
                'rng': draw(st.sampled_from(['rs', 'gen'])), 'in': node}
    if op == 'reshuffle':
        return {'op': 'reshuffle', 'seed': draw(st.integers(0, 50)), 'rng': draw(st.sampled_from(['rs', 'rs', 'gen'])),
                'in': node}
    if op == 'local_shuffle':
        return {'op': 'local_shuffle', 'buffer': draw(st.integers(1, max(1, n + 1))),
                'seed': draw(st.integers(0, 50)), 'rng': draw(st.sampled_from(['rs', 'rs', 'gen'])), 'in': node}
    # n-ary
    if op == 'concat':
        k = draw(st.integers(1, 2))
        others = []
        for _ in range(k):
            o = draw(st_program(ctx, allowed, max_stages=min(2, budget), nested=True))
            if ev(o).unordered:
                o = draw(st_source(ctx))
            others.append(o)
        ins = [node] + others
        if draw(st.booleans()):
            ins = ins[::-1]
        out = {'op': 'concat', 'how': draw(st.sampled_from(['method', 'method_list', 'function'])), 'ins': ins}
        if draw(st.integers(0, 3)) == 0:
            # the same dataset OBJECT occurs several times among the inputs (a.concatenate(b, a)), possibly often
            reps = draw(st.sampled_from([1, 1, 1, 2]))
            out['ins'] = (ins + [ins[0]]) * reps
            out['share'] = True
        return out
    if op == 'intersperse':
        o = draw(st_program(ctx, allowed, max_stages=min(2, budget), nested=True, min_n=1))
        mo = ev(o)
        if not (mo.sized and mo.n >= 1) or mo.unordered:
            o = draw(st_source(ctx, min_n=1))
        ins = [node, o]
        if draw(st.booleans()):
            ins = ins[::-1]
        return {'op': 'intersperse', 'how': draw(st.sampled_from(['method', 'function'])), 'ins': ins}
    if op == 'zip':
        o = draw(st_source(ctx, n=n))
        o = draw(st_same_length_stage(o, ctx, allowed))
        ins = [node, o]
        if draw(st.booleans()):
            ins = ins[::-1]
        return {'op': 'zip', 'how': draw(st.sampled_from(['method', 'function'])), 'ins': ins}
    if op == 'key_zip':
        keys = draw(st.permutations(sorted(set(m.keys))))
        o = draw(st_source(ctx, kind='dict', keys=list(keys)))
        if draw(st.booleans()):
            o = {'op': 'map', 'fn': draw(st.integers(0, 3)), 'in': o}
        top = draw(st.sampled_from([None, None, 'cache', 'copy', 'rev']))
        if top == 'cache':
            o = {'op': 'cache', 'lazy': True, 'in': o}  # the partner's top stage is a cache (other key order)
        elif top == 'copy':
            o = {'op': 'copy', 'freeze': False, 'in': o}
        elif top == 'rev':
            o = {'op': 'slice', 'form': {'k': 'slice', 'a': None, 'b': None, 'c': -1}, 'in': o}
        ins = [node, o]
        if draw(st.booleans()):
            ins = ins[::-1]
        return {'op': 'key_zip', 'how': draw(st.sampled_from(['method', 'function'])), 'ins': ins}
    raise ValueError(op)


@st.composite
def st_same_length_stage(draw, node, ctx, allowed=None):
    need = {'map': 'map', 'rev': 'slice', 'shuffle': 'shuffle_once', 'cache': 'cache_lazy', 'sort': 'sort'}
    choices = ['none'] + [c for c, op in need.items() if allowed is None or op in allowed]
    choice = draw(st.sampled_from(choices))
    if choice == 'none':
        return node
    if choice == 'map':
        return {'op': 'map', 'fn': draw(st.integers(0, 3)), 'in': node}
    if choice == 'rev':
        return {'op': 'slice', 'form': {'k': 'slice', 'a': None, 'b': None, 'c': -1}, 'in': node}
    if choice == 'shuffle':
        return {'op': 'shuffle_once', 'seed': draw(st.integers(0, 50)), 'in': node}
    if choice == 'cache':
        return {'op': 'cache', 'lazy': True, 'in': node}
    return {'op': 'sort', 'key': draw(st.integers(1, 3)), 'reverse': draw(st.booleans()), 'sort_fn': None, 'in': node}


@st.composite
def st_program(draw, ctx=None, allowed=None, max_stages=6, nested=False, min_n=0, source=None):
    """A valid pipeline program (JSON-able dict)."""
    if ctx is None:
        ctx = Ctx()
    allowed = ALL_OPS if allowed is None else allowed
    node = source if source is not None else draw(st_source(ctx, min_n=min_n))
    n_stages = draw(st.integers(0, max_stages))
    for s in range(n_stages):
        m = ev(node)
        cands = candidates(m, allowed if not nested else allowed - {'concat', 'intersperse', 'zip', 'key_zip'})
        if not cands:
            break
        op = draw(st.sampled_from(sorted(cands)))
        new = draw(st_stage(op, node, m, ctx, allowed, max_stages - s - 1))
        try:
            ev(new)
        except Invalid:
            continue  # precondition of this parameter combination not met: keep the program as it is
        node = new
    return node
