"""Module-level (picklable) task functions for the real worker pools, and the real-backend harness (C04-C06)."""
import functools
import os
import signal
import tempfile
import time

from hypothesis import strategies as st

from . import progs
from .common import Inconclusive, Violation

BACKENDS = ['t', 'mp', 'dill_mp', 'multiprocessing', 'concurrent_mp']


def pool_task(x, delays=(), fails=None, log=None, salt=0, vk=None, none_pos=None):
    """x is ('v', i). Sleeps delays[i] ms (later tasks may finish first), appends start/end markers, may raise."""
    i = none_pos if x is None else x[1]  # the source example at none_pos is None (a legitimate example)
    if log:
        fd = os.open(log, os.O_WRONLY | os.O_APPEND | os.O_CREAT)
        os.write(fd, f'start {i}\n'.encode())
        os.close(fd)
    d = delays[i] if i < len(delays) else 0
    if d:
        time.sleep(d / 1000.0)
    if fails and str(i) in fails:
        raise progs.exc_class(fails[str(i)])('fn', i)
    if log:
        fd = os.open(log, os.O_WRONLY | os.O_APPEND | os.O_CREAT)
        os.write(fd, f'end {i}\n'.encode())
        os.close(fd)
    return progs.value_of(vk, ('r', i, salt))


def pull_marker(x, log=None, none_pos=None):
    """Identity stage in front of a parallel map: records that the INPUT example was pulled."""
    i = none_pos if x is None else x[1]
    fd = os.open(log, os.O_WRONLY | os.O_APPEND | os.O_CREAT)
    os.write(fd, f'pull {i}\n'.encode())
    os.close(fd)
    return x


class _Alarm:
    def __init__(self, seconds):
        self.seconds = seconds

    def __enter__(self):
        def handler(signum, frame):
            raise Inconclusive(f'watchdog: pool run exceeded {self.seconds}s')
        self.old = signal.signal(signal.SIGALRM, handler)
        signal.alarm(self.seconds)

    def __exit__(self, *exc):
        signal.alarm(0)
        signal.signal(signal.SIGALRM, self.old)
        return False


def run_pool_case(case):
    """Run one workload on a real backend. Returns dict(delivered, exc, started, log lines)."""
    import lazy_dataset
    import lazy_dataset.parallel_utils as pu
    be, api, n, w, b = case['backend'], case['api'], case['n'], case['workers'], case['buffer']
    fails = case.get('fn_fail') or None
    delays = tuple(case.get('delays', ()))
    stop = case.get('stop')
    tmp = tempfile.mkdtemp(prefix='verif_pool_')
    log = os.path.join(tmp, 'markers.log')
    salt = case.get('salt', 0)
    fn = functools.partial(pool_task, delays=delays, fails=fails, log=log if case.get('markers') else None, salt=salt,
                           vk=case.get('vk'), none_pos=case.get('src_none'))
    out = {'delivered': [], 'exc': None, 'len': None, 'closed': False}
    try:
        with _Alarm(90):
            vals = [None if i == case.get('src_none') else ('v', i) for i in range(n)]
            if case.get('src_lambda'):
                # input examples that hold a lambda (a lazily evaluated field): fine for the thread backend and for
                # the dill-based process backends, which exist for exactly such objects
                vals = [v if v is None else v + ((lambda: 0),) for v in vals]
            if api == 'lpm':
                it = pu.lazy_parallel_map(fn, iter(vals), buffer_size=b, max_workers=w, backend=be)
            else:
                kw = {'immutable_warranty': 'copy'} if case.get('src_lambda') else {}  # (pickle mode cannot hold them)
                if case.get('with_key') or case.get('src') == 'dict':
                    ds = lazy_dataset.new({f'k{i:02d}': v for i, v in enumerate(vals)}, **kw)
                else:
                    ds = lazy_dataset.new(vals, **kw)
                if api == 'pm':
                    if case.get('readahead'):
                        # the input side of the parallel map is observable too (it runs in this process)
                        ds = ds.map(functools.partial(pull_marker, log=log, none_pos=case.get('src_none')))
                    ds = ds.map(fn, num_workers=w, buffer_size=b, backend=be)
                else:
                    catch = case.get('catch', False)
                    kw = {} if catch is False else {'catch_filter_exception': True if catch is True
                                                    else progs.exc_spec(catch)}
                    ds = ds.map(fn).prefetch(w, b, backend=be, **kw)
                try:
                    out['len'] = len(ds)
                except TypeError:
                    out['len'] = None
                if case.get('with_key'):
                    ds = ds.items()
                it = iter(ds)
            try:
                for x in it:
                    if stop is not None and len(out['delivered']) >= stop:
                        break
                    out['delivered'].append(x)
                    if case.get('readahead'):
                        # the consumer records the hand-over in the same append-only log and then pauses, so that the
                        # workers can run as far ahead as the library lets them
                        fd = os.open(log, os.O_WRONLY | os.O_APPEND | os.O_CREAT)
                        os.write(fd, f'handed {len(out["delivered"])}\n'.encode())
                        os.close(fd)
                        if len(out['delivered']) <= case.get('pauses', 4):
                            time.sleep(case.get('pause_ms', 40) / 1000.0)
            except Inconclusive:
                raise
            except Exception as e:
                e.__traceback__ = None
                out['exc'] = e
            if stop is not None and out['exc'] is None:
                t0 = time.time()
                it.close()
                out['closed'] = True
                out['close_s'] = time.time() - t0
                if case.get('markers'):
                    at_return = _read(log)
                    time.sleep(0.3)
                    later = _read(log)
                    out['lines_at_return'] = at_return
                    out['lines_later'] = later
        if case.get('readahead'):
            out['lines'] = _read(log)
        return out
    finally:
        import shutil
        shutil.rmtree(tmp, ignore_errors=True)


def _read(path):
    try:
        with open(path) as f:
            return f.read().splitlines()
    except FileNotFoundError:
        return []


def expected_pool(case):
    n = case['n']
    fails = {int(k): v for k, v in (case.get('fn_fail') or {}).items()}
    catch = case.get('catch', False)
    out = []
    for i in range(n):
        e = fails.get(i)
        if e is not None:
            if catch is not False and case['api'] == 'pf' and progs.Raise(e, ()).is_caught_by(
                    None if catch is True else catch):
                continue
            return out, i, e
        v = progs.token(progs.value_of(case.get('vk'), ('r', i, case.get('salt', 0))))
        out.append((f'k{i:02d}', v) if case.get('with_key') else v)
    return out, None, None


def judge_pool(case, out):
    desc = f'{case}'
    want, pos, ename = expected_pool(case)
    stop = case.get('stop')
    if stop is not None and len(want) >= stop:
        want, pos, ename = want[:stop], None, None
    got = out['delivered'] = [progs.token(x) for x in out['delivered']]
    if got != want:
        sig = 'pool-delivered-wrong'
        if got == want[:len(got)] and len(got) < len(want):
            sig = 'pool-silently-truncated' if out['exc'] is None else 'pool-error-overtakes-results'
        raise Violation(f'{sig}|{case["backend"]}', f'{desc}\ndelivered {got}\nexpected {want}\nraised {out["exc"]!r}')
    if ename is None and out['exc'] is not None:
        raise Violation(f'pool-unexpected-error|{case["backend"]}', f'{desc}\nraised {out["exc"]!r}')
    if ename is not None:
        e = out['exc']
        if e is None:
            raise Violation(f'pool-error-swallowed|{case["backend"]}', f'{desc}\nexpected {ename} at {pos}')
        if type(e) is not progs.exc_class(ename) or tuple(e.args) != ('fn', pos):
            raise Violation(f'pool-wrong-error|{case["backend"]}', f'{desc}\nraised {e!r}; expected {ename}("fn", {pos})')
    if case['api'] in ('pm', 'pf') and case.get('catch', False) is False and out['len'] != case['n']:
        raise Violation(f'pool-len-wrong|{case["backend"]}', f'{desc}\nlen {out["len"]}')
    if case.get('readahead'):
        started = handed = pulled = 0
        for line in out.get('lines', []):
            if line.startswith('start'):
                started += 1
            elif line.startswith('handed'):
                handed += 1
            elif line.startswith('pull'):
                pulled += 1
                if pulled - handed > case['buffer'] + 2:
                    raise Violation(f'pool-readahead-pulled|{case["backend"]}',
                                    f'{desc}\nat log line {line!r}: {pulled} input examples pulled, {handed} examples '
                                    f'handed to the consumer, buffer_size {case["buffer"]}')
            single_thread = case['api'] == 'pf' and case['workers'] == 1 and case['backend'] == 't'
            if started - handed > case['buffer'] + (2 if single_thread else 0):
                raise Violation(f'pool-readahead-started|{case["backend"]}',
                                f'{desc}\nat log line {line!r}: {started} function applications started, {handed} '
                                f'examples handed to the consumer, buffer_size {case["buffer"]}')
        out['max_ahead'] = started - handed
    if out.get('closed') and case.get('markers'):
        late = [l for l in out['lines_later'][len(out['lines_at_return']):]]
        if late:
            raise Violation(f'pool-user-code-after-close|{case["backend"]}',
                            f'{desc}\nmarker lines written after close() returned: {late}')
        started = sum(1 for l in out['lines_later'] if l.startswith('start'))
        w = case['workers']
        bound = len(got) + 2 * w + 4
        if case.get('check_cancel') and started > bound:
            raise Violation(f'pool-pending-not-cancelled|{case["backend"]}',
                            f'{desc}\n{started} tasks were started although the consumer stopped after {len(got)} '
                            f'examples (allowed: delivered + running + unstoppable call-queue = {bound})')


@st.composite
def st_pool_case(draw, profile, backends=BACKENDS):
    be = draw(st.sampled_from(backends))
    api = draw(st.sampled_from(['lpm', 'pm', 'pf']))
    w = draw(st.integers(1, 3))
    b = draw(st.integers(w, 4))
    n = draw(st.sampled_from([0, 1, 5, 12]))
    case = {'backend': be, 'api': api, 'n': n, 'workers': w, 'buffer': b, 'salt': draw(st.integers(0, 10 ** 6)),
            'delays': draw(st.lists(st.sampled_from([0, 0, 1, 2, 4, 8]), min_size=n, max_size=n))}
    if draw(st.integers(0, 2)) == 0:
        case['vk'] = draw(st.sampled_from(progs.VALUE_KINDS[1:]))
    if n and draw(st.integers(0, 3)) == 0:
        case['src_none'] = draw(st.integers(0, n - 1))
    if be in ('t', 'mp', 'dill_mp') and api in ('lpm', 'pm') and draw(st.integers(0, 3)) == 0:
        case['src_lambda'] = True
    if api in ('pm', 'pf') and draw(st.booleans()):
        if api == 'pf':
            case['src'] = 'dict'
        else:
            case['with_key'] = True
    if profile == 'fault' and n:
        k = draw(st.integers(1, min(3, n)))
        pos = draw(st.lists(st.integers(0, n - 1), min_size=k, max_size=k, unique=True))
        case['fn_fail'] = {str(p): draw(st.sampled_from(['VErrA', 'VErrB', 'VErrC'])) for p in pos}
        if api == 'pf' and be in ('t', 'mp', 'dill_mp'):
            # 'multiprocessing' / 'concurrent_mp' cannot pickle local functions (documented), and the catching wrapper
            # of PrefetchDataset is one: that combination is outside the domain
            case['catch'] = draw(st.sampled_from([False, 'VErrA', ['VErrA', 'VErrC']]))
    if profile == 'readahead':
        case['n'] = n = draw(st.sampled_from([16, 24]))
        case['delays'] = [draw(st.sampled_from([1, 2]))] * n
        case['markers'] = True
        case['readahead'] = True
        case['pauses'] = draw(st.integers(2, 5))
        case.pop('with_key', None)
        if api == 'pf' and be in ('t', 'mp', 'dill_mp') and draw(st.booleans()):
            case['catch'] = True  # catching enabled, nothing raises
    if profile == 'stop':
        case['n'] = n = draw(st.sampled_from([12, 30]))
        case['buffer'] = b = draw(st.sampled_from([w, 4 * w + 8]))
        case['delays'] = [draw(st.sampled_from([20, 40]))] * n
        case['stop'] = draw(st.integers(0, 3))
        case['markers'] = True
        case['check_cancel'] = b >= 4 * w + 8
        case.pop('with_key', None)
    return case
