"""Workloads for the schedule-owning harness and the judges of C04 (transparency), C05 (clean stop), C06 (errors),
C07 (bounded read-ahead). One engine, four oracles over the same trace."""
import gc

from hypothesis import strategies as st

from . import detsched, progs
from .common import Violation

KINDS = ('stp', 'lpm', 'pf', 'pm', 'pf2')
EXCS = ('VErrA', 'VErrB', 'VErrC', 'VBase', 'IndexError', 'FilterException', 'TypeError', 'KeyError', 'VFalsy')


class Trace:
    pass


def strip_tb(e):
    """Drop the tracebacks of an exception the harness keeps AND of everything chained to it (a StopIteration that PEP 479
    turned into a RuntimeError hangs on __cause__): a kept traceback keeps the frames of the failed pipeline alive, which
    is the consumer's doing, not the library's."""
    seen = set()
    while e is not None and id(e) not in seen:
        seen.add(id(e))
        e.__traceback__ = None
        e = e.__cause__ or e.__context__


def expected_of(case):
    """Sequential semantics of the workload: (delivered list, failing position or None, exception name or None)."""
    n = case['n']
    src_fail = {int(k): v for k, v in case.get('src_fail', {}).items()}
    fn_fail = {int(k): v for k, v in case.get('fn_fail', {}).items()}
    catch = case.get('catch', False)
    out = []
    if case.get('iter_fail'):
        # the source fails when iteration over it STARTS (an __iter__ that opens a file), before any example
        return out, 0, case['iter_fail'], 'iter'
    for i in range(n):
        e = src_fail.get(i) or fn_fail.get(i)
        if e is not None:
            if catch is not False and case['kind'] == 'pf' and progs.Raise(e, ()).is_caught_by(
                    None if catch is True else catch):
                continue
            return out, i, e, ('src' if i in src_fail else 'fn')
        out.append(result_value(case, i))
    return out, None, None, None


def key_of(i):
    return f'k{i:02d}'


def result_value(case, i):
    v = None if i in case.get('none_at', []) else progs.token(progs.value_of(case.get('vk'), ('r', i)))
    if case.get('batched'):
        return [v]
    if case.get('with_key'):
        return (key_of(i), v)
    return v


def run_case(case, trace_lines=True):
    """Execute one workload under one schedule. Returns a Trace."""
    import lazy_dataset
    import lazy_dataset.parallel_utils as pu

    kind, n, w, b = case['kind'], case['n'], case['workers'], case['buffer']
    src_fail = {int(k): v for k, v in case.get('src_fail', {}).items()}
    fn_fail = {int(k): v for k, v in case.get('fn_fail', {}).items()}
    yields = case.get('yields', [])
    slow = case.get('slow')
    stop = case.get('stop', {'kind': 'exhaust', 'k': 0})
    pauses = set(case.get('pauses', []))
    sch = case.get('sched', {'mode': 'list', 'choices': []})
    if sch['mode'] == 'list':
        chooser = detsched.chooser_from_list(sch['choices'])
    elif sch['mode'] == 'prng':
        import random
        r = random.Random(sch['seed'])
        hi = sch.get('spread', 3)
        chooser = detsched.chooser_from_list([r.randint(0, hi) for _ in range(3000)])
    else:
        chooser = detsched.chooser_preemptions(sch['points'])
    trace = [pu.__file__] if trace_lines else []
    if case.get('trace_core'):
        # also every source line of core.py executed by the pipeline (worker threads run __getitem__ chains there)
        import lazy_dataset.core as _core
        trace.append(_core.__file__)
    if case.get('cache_below') and trace_lines:
        # ... and the Python-level pickling hooks of the example values (a thread may be switched out while one of
        # its examples is being serialised)
        trace.append(progs.__file__)
    sched = detsched.Scheduler(chooser, trace_files=trace)
    stop_window = {'open': False, 'blocked': []}

    def on_block(thread, why):
        # the CONSUMER has to wait for another thread while its stop is being processed: which submitted tasks are
        # still pending and not cancelled at that moment? (judge_cancel: cancelling comes before any waiting)
        if stop_window['open'] and thread.tid == 0 and why not in ('quiesce', 'join closer'):
            # only pools the consumer's own thread created: a pool inside a running task is that task's business
            pend = [f.seq for ex in stop_window['executors']() if ex.creator == 0
                    for f in ex.work if f.state == 'pending']
            if pend:
                stop_window['blocked'].append((why, pend))
    sched.block_hooks.append(on_block)
    raised = {}
    none_at = set(case.get('none_at', []))

    def mkexc(name, where, i):
        e = progs.exc_class(name)(where, i)
        raised.setdefault(i, []).append(e)  # several iterators over one object may each hit the same position
        return e

    def pull(i):
        sched.event('pull', i)
        if i in src_fail:
            raise mkexc(src_fail[i], 'src', i)

    src_none = case.get('src_none')  # position of a source example that is None (a legitimate example)

    def srcval(i):
        return None if i == src_none else ('v', i)

    def pos_of(x):
        return src_none if x is None else x[1]

    def source():
        for i in range(n):
            pull(i)
            yield srcval(i)

    class EagerlyFailing:
        # an iterable whose __iter__ itself raises: not a generator (whose body only starts at the first next())
        def __iter__(self):
            raise mkexc(case['iter_fail'], 'iter', 0)

    def work(i):
        sched.event('start', i)
        k = yields[i] if i < len(yields) else 0
        if slow is not None and i == slow[0]:
            k += slow[1]
        for _ in range(k):
            sched.yield_point('work')
        if case.get('nested_pool') and i == case['nested_pool'] - 1:
            # the user function itself runs a small parallel map with the same worker count (a loader that fans out):
            # the outer workers are busy while the inner tasks need workers of their own
            inner = list(pu.lazy_parallel_map(lambda y: y + 1, [10, 20], buffer_size=w, max_workers=w, backend='t'))
            if inner != [11, 21]:
                raise RuntimeError(f'nested parallel map returned {inner}')
        if i in fn_fail:
            sched.event('end', i)
            raise mkexc(fn_fail[i], 'fn', i)
        sched.event('end', i)
        return None if i in none_at else progs.value_of(case.get('vk'), ('r', i))

    def fn(x):
        return work(pos_of(x))

    def pull_fn(x):
        pull(pos_of(x))
        return x

    tr = Trace()
    tr.case = case
    tr.delivered = []
    tr.exc = None
    tr.exhausted = False
    tr.len_reported = None
    tr.stopped_by_consumer = False
    tr.construct_error = None

    def make_iterable():
        if kind == 'stp':
            # the source applies the function itself: everything runs in the background thread
            def gen():
                for x in source():
                    yield fn(x)
            return pu.single_thread_prefetch(EagerlyFailing() if case.get('iter_fail') else gen(), b)
        if kind == 'lpm':
            inp = source()
            if case.get('input_as'):
                # an in-memory sequence as input (module-level use of lazy_parallel_map): no pull events, the
                # function-start bound still holds
                inp = {'list': list, 'tuple': tuple, 'range_map': lambda v: v}[case['input_as']](
                    [srcval(i) for i in range(n)])
            if case.get('under_pf1'):
                # the input of the parallel map is itself a single-thread prefetch (closing it joins its thread)
                inp = pu.single_thread_prefetch(inp, case['under_pf1'])
            return pu.lazy_parallel_map(fn, EagerlyFailing() if case.get('iter_fail') else inp,
                                        buffer_size=b, max_workers=w, backend=False if case.get('serial') else 't')
        vals = [srcval(i) for i in range(n)]
        if case.get('src') == 'dict' or case.get('with_key'):
            ds = lazy_dataset.new({key_of(i): v for i, v in enumerate(vals)})
        elif case.get('src') == 'keyzip_sel' and n >= 1:
            # a keyed selection zipped by key with its parent: worker threads make the FIRST key lookups on the fresh
            # selection concurrently (whatever it builds lazily is built under contention)
            base = lazy_dataset.new({key_of(i): v for i, v in enumerate(vals)})
            sel = base[[key_of(i) for i in range(n)]]
            ds = base.key_zip(sel).map(lambda t: t[0])
        elif case.get('src') == 'keyzip_concat' and n >= 2:
            # the function runs BELOW a concatenation that is read BY KEY (key_zip above it): a KeyError / LookupError
            # of the function travels through the concatenation's own key lookup
            base = lazy_dataset.new({key_of(i): v for i, v in enumerate(vals)})
            keys_ = [key_of(i) for i in range(n)]
            h = max(1, n // 2)
            cat = base[keys_[:h]].map(pull_fn).map(fn).concatenate(base[keys_[h:]].map(pull_fn).map(fn))
            ds = base.key_zip(cat).map(lambda t: t[1])
        elif case.get('src') == 'concat' and n >= 2:
            h = max(1, n // 3)
            parts = [lazy_dataset.new(vals[:h]), lazy_dataset.new(vals[h:n - 1]), lazy_dataset.new(vals[n - 1:])]
            ds = lazy_dataset.concatenate(*[p for p in parts if len(p)])
        else:
            ds = lazy_dataset.new(vals)
        if case.get('iter_fail'):
            failing = EagerlyFailing()

            class UserDataset(lazy_dataset.Dataset):
                indexable = False
                ordered = True

                def copy(self, freeze=False):
                    return self

                def __len__(self):
                    return n

                def __iter__(self, with_key=False):
                    return iter(failing)
            ds = UserDataset()
        if kind == 'pf2':
            # two single-thread prefetch stages stacked: two hand-over threads alive at the same time
            ds = ds.map(pull_fn).prefetch(1, b).map(fn).prefetch(1, max(1, case.get('buffer2', 1)))
        elif kind == 'pf' and case.get('cache_below'):
            # a memory cache between the function and a multi-worker prefetch: concurrent misses store concurrently
            ds = ds.map(pull_fn).map(fn).cache().prefetch(w, b)
        elif kind == 'pf':
            if case.get('shuffled'):
                import numpy as np
                ds = ds.shuffle(True, rng=np.random.RandomState(case['shuffled']))
            if not (case.get('src') == 'keyzip_concat' and n >= 2):
                ds = ds.map(pull_fn).map(fn)
            catch = case.get('catch', False)
            if catch is False:
                ds = ds.prefetch(w, b)
            else:
                ds = ds.prefetch(w, b, catch_filter_exception=True if catch is True else progs.exc_spec(catch))
        elif kind == 'pm' and case.get('batched'):
            # batch_map: the same worker pool, applied to the members of (one-element) batches
            ds = ds.map(pull_fn).batch(1).batch_map(fn, num_workers=w, buffer_size=b, backend='t')
        elif kind == 'pm' and case.get('under_pf1'):
            ds = ds.map(pull_fn).prefetch(1, case['under_pf1']).map(fn, num_workers=w, buffer_size=b, backend='t')
        elif kind == 'pm':
            ds = ds.map(pull_fn).map(fn, num_workers=w, buffer_size=b, backend='t')
        if case.get('copy'):
            ds = ds.copy()  # a copy must behave like the original (all parameters preserved)
        if case.get('profiled'):
            # the whole pipeline under the profiling wrapper: worker threads bump the (unlocked) counters of the nodes
            # below the prefetch; at source-line granularity every `+= 1` is one step, so the counts are exact for
            # every owned schedule (C20 judges them against the event log)
            from lazy_dataset.core import ProfilingDataset
            ds = ProfilingDataset(ds)
            make_iterable.prof = ds
        try:
            tr.len_reported = len(ds)
        except TypeError:
            tr.len_reported = None
        if case.get('with_key'):
            ds = ds.items()
        make_iterable.obj = ds
        return ds

    def main():
        try:
            it = iter(make_iterable())
        except AssertionError as e:
            if case['buffer'] < max(1, case['workers']):
                tr.construct_error = e  # an invalid buffer size was rejected: nothing to schedule
                return
            raise
        k = stop['k']
        if case.get('dual'):
            # a second iterator over the SAME dataset object is in flight while the first is consumed
            it2 = iter(make_iterable.obj)
            tr.delivered2 = []
            try:
                tr.delivered2.append(next(it2))
            except StopIteration:
                pass
            except detsched.Abort:
                raise
            except BaseException as e:  # noqa: a generated fault may hit the second iterator first
                tr.exc2 = e
        try:
            while True:
                if stop['kind'] != 'exhaust' and len(tr.delivered) >= k:
                    break
                if len(tr.delivered) in pauses:
                    sched.quiesce()
                x = next(it)
                sched.event('handed', len(tr.delivered), yield_after=False)
                tr.delivered.append(x)
        except StopIteration:
            tr.exhausted = True
        except detsched.Abort:
            raise
        except BaseException as e:  # noqa
            if isinstance(e, (KeyboardInterrupt, SystemExit, GeneratorExit)):
                raise
            strip_tb(e)  # no frame cycles: nothing of this case may be left to the cyclic GC
            if isinstance(e, AssertionError) and case['buffer'] < max(1, case['workers']) and not tr.delivered:
                tr.construct_error = e  # the invalid buffer size was rejected at the first next(): nothing to judge
            else:
                tr.exc = e
        if case.get('dual'):
            try:
                for x in it2:
                    tr.delivered2.append(x)
            except detsched.Abort:
                raise
            except BaseException as e:  # noqa
                tr.exc2 = e
        if not tr.exhausted and tr.exc is None:
            tr.stopped_by_consumer = True
            sched.event('stop-begin', None, yield_after=False)
            stop_window['open'] = True
            if stop['kind'] == 'close':
                try:
                    it.close()
                except detsched.Abort:
                    raise
                except BaseException as e:  # noqa: judged by judge_termination
                    strip_tb(e)
                    tr.close_exc = e
            elif stop['kind'] == 'close_other':
                # the iterator was handed to another thread (a clean-up thread, a finaliser) which closes it there
                def closer():
                    try:
                        it.close()
                    except detsched.Abort:
                        raise
                    except BaseException as e:  # noqa: judged by judge_termination
                        strip_tb(e)
                        tr.close_exc = e
                lt = sched.spawn('closer', closer)
                sched.start_thread(lt)
                sched.block_until(lambda: lt.finished, 'join closer')
            elif stop['kind'] == 'throw' and hasattr(it, 'throw'):
                # the consumer's loop body failed inside a `yield from` / generator wrapper: the exception is thrown
                # INTO the iterator at its yield and must come back out after the clean-up
                marker = progs.VErrC('thrown-by-consumer')
                try:
                    it.throw(marker)
                except detsched.Abort:
                    raise
                except BaseException as e:  # noqa
                    strip_tb(e)
                    if e is not marker:
                        tr.close_exc = e
                else:
                    tr.close_exc = RuntimeError('throw() returned a value instead of raising')
            elif stop['kind'] == 'throw':
                it.close()
            elif stop['kind'] == 'del':
                del it
            else:
                del it
                gc.collect()
        stop_window['open'] = False
        if case.get('epochs'):
            tr.epochs = [list(tr.delivered)]
            for _ in range(case['epochs'] - 1):
                tr.epochs.append(list(make_iterable.obj))
        sched.event('returned', None, yield_after=False)
        tr.unfinished_at_return = sched.unfinished()
        sched.quiesce()
        if case.get('profiled'):
            # counters of every profiling node, top down, read once nothing is in flight any more
            tr.prof = []
            node = getattr(make_iterable, 'prof', None)
            while node is not None and hasattr(node, 'hit_count'):
                inner = node.input_dataset
                tr.prof.append((type(inner).__name__, list(node.hit_count)))
                node = getattr(inner, 'input_dataset', None)
        sched.event('end-of-case', None, yield_after=False)

    with detsched.Patched(sched) as patched:
        stop_window['executors'] = lambda: list(patched.executor_cls.instances)
        try:
            _, outcome = sched.run(main)
        except detsched.Abort:
            outcome = 'deadlock' if sched.deadlock else 'steplimit'
        tr.executors = list(patched.executor_cls.instances)
    tr.blocked_with_pending = stop_window['blocked']
    # examples may be arrays, exception objects or objects that refuse comparison: judge comparable stand-ins
    tr.delivered = [progs.token(x) for x in tr.delivered]
    if hasattr(tr, 'delivered2'):
        tr.delivered2 = [progs.token(x) for x in tr.delivered2]
    if hasattr(tr, 'epochs'):
        tr.epochs = [[progs.token(x) for x in ep] for ep in tr.epochs]
    tr.outcome = outcome
    tr.sched = sched
    tr.log = sched.log
    tr.raised = raised
    tr.os_alive = sched.os_threads_alive()
    if not hasattr(tr, 'unfinished_at_return'):
        tr.unfinished_at_return = []
    return tr


# ---------------------------------------------------------------------------------------------------------------------
# judges


def describe(tr):
    c = tr.case
    return (f"workload {c['kind']} n={c['n']} workers={c['workers']} buffer={c['buffer']} "
            f"with_key={c.get('with_key', False)} src_fail={c.get('src_fail', {})} fn_fail={c.get('fn_fail', {})} "
            f"catch={c.get('catch', False)} stop={c.get('stop')} pauses={c.get('pauses', [])} "
            + ''.join(f'{k}={c[k]} ' for k in ('vk', 'batched', 'dual', 'copy', 'under_pf1', 'input_as', 'profiled', 'src', 'shuffled', 'epochs', 'src_none', 'iter_fail', 'nested_pool', 'serial', 'cache_below') if c.get(k) is not None and c.get(k) is not False) +
            f"decisions={len(tr.sched.decisions)} preemptions={tr.sched.preemptions}")


def judge_termination(tr):
    """C05 (a)-(c): no deadlock, background threads finished and no user code once control is back."""
    if tr.construct_error is not None:
        return
    if tr.outcome == 'deadlock':
        raise Violation(f'deadlock|{tr.case["kind"]}', f'{describe(tr)}\n{tr.sched.deadlock}')
    if tr.outcome == 'steplimit':
        raise Violation(f'livelock|{tr.case["kind"]}', f'{describe(tr)}\nstep limit of {tr.sched.max_steps} exceeded')
    if getattr(tr, 'close_exc', None) is not None:
        raise Violation(f'close-raised|{tr.case["kind"]}',
                        f'{describe(tr)}\nthe consumer stopped after {len(tr.delivered)} examples; close() raised '
                        f'{tr.close_exc!r} (an error of an example the consumer never asked for)')
    if tr.unfinished_at_return:
        raise Violation(f'thread-alive-after-return|{tr.case["kind"]}',
                        f'{describe(tr)}\nlogical threads not finished when control returned: '
                        f'{tr.unfinished_at_return}')
    ret = [c for c, _, kind, _ in tr.log if kind == 'returned']
    if ret:
        late = [(c, t, kind, p) for c, t, kind, p in tr.log if c > ret[0] and kind in ('pull', 'start', 'end')]
        if late:
            raise Violation(f'user-code-after-return|{tr.case["kind"]}', f'{describe(tr)}\nevents after return: {late}')


def judge_profile(tr):
    """C20 under owned schedules: at quiescence every profiling node reports exactly the fetches that went through it.

    Independent counters: the event log ('pull' = one fetch reached the bottom map; it is emitted by the function of
    the map directly above the source) and the exception objects the generated faults created."""
    c = tr.case
    if tr.construct_error is not None or not hasattr(tr, 'prof'):
        return
    if tr.outcome in ('deadlock', 'steplimit'):
        return  # judged by judge_termination
    pulls = sum(1 for _, _, kind, _ in tr.log if kind == 'pull')
    nraised = {'src': 0, 'fn': 0}
    for es in tr.raised.values():
        for e in es:
            if isinstance(e, Exception) and e.args and e.args[0] in nraised:
                nraised[e.args[0]] += 1
    names = [nm for nm, _ in tr.prof]
    # the chain is  [ParMap | Prefetch] -> Map(fn) -> Map(pull) -> source   (pm has no separate Map(fn))
    want = {}
    surfaced = 1 if isinstance(tr.exc, Exception) else 0
    want[0] = [len(tr.delivered) + (1 if tr.exc is not None else 0), surfaced]
    # the chain is  [ParMap | Prefetch] -> Map(fn) -> Map(pull) -> (deserialising map ->) source; pm has no Map(fn)
    if len(names) < (4 if c['kind'] == 'pf' else 3):
        raise Violation('sched-count|chain', f'{describe(tr)}\nunexpected profiling chain {names}')
    i = 1
    if c['kind'] == 'pf':
        want[i] = [pulls, nraised['src'] + nraised['fn']]
        i += 1
    want[i] = [pulls, nraised['src']]
    for j in range(i + 1, len(names)):
        want[j] = [pulls, 0]
    for i, w_ in want.items():
        got = tr.prof[i][1]
        if got != w_:
            role = 'root' if i == 0 else ('below-workers' if c['workers'] >= 2 and c['kind'] == 'pf' else 'below')
            raise Violation(f'sched-count|{role}',
                            f'{describe(tr)}\nprofiling node {i} (wraps {names[i]}) reports hit_count {got}; the event '
                            f'log has {pulls} fetches through the bottom map, {nraised} raised, {len(tr.delivered)} '
                            f'delivered, surfaced error {tr.exc!r}: expected {w_}\nall nodes: {tr.prof}')


def judge_cancel(tr):
    """C05 (d): consumer-initiated early stop => nothing still pending and un-cancelled when the pool shuts down."""
    if not tr.stopped_by_consumer:
        return
    if tr.case.get('stop', {}).get('kind') == 'throw':
        # an exception thrown INTO the iterator is not among the stop points the statement lists for the cancellation
        # clause (the pool path only cancels on GeneratorExit; pending tasks run before control returns): clean
        # termination is still required (judge_termination), cancellation is not asserted
        return
    if getattr(tr, 'blocked_with_pending', None):
        why, pend = tr.blocked_with_pending[0]
        raise Violation(f'waits-before-cancel|{tr.case["kind"]}',
                        f'{describe(tr)}\nafter the consumer stopped, its thread had to WAIT ({why}) while the submitted '
                        f'tasks {pend} were still pending and not cancelled: the workers execute them meanwhile '
                        f'(cancelling what has not started must come before any waiting)')
    for ex in tr.executors:
        if ex.pending_at_shutdown:
            raise Violation(f'pending-not-cancelled|{tr.case["kind"]}',
                            f'{describe(tr)}\ntasks {ex.pending_at_shutdown} were still pending and not cancelled '
                            f'when the executor was shut down after the consumer stopped')


def judge_values(tr, check_len=True):
    """C04 / C06: delivered == sequential prefix, then the same exception (identity), never a silent stop."""
    c = tr.case
    if tr.construct_error is not None:
        return
    want, fail_pos, ename, _ = expected_of(c)
    stop = c.get('stop', {'kind': 'exhaust', 'k': 0})
    if stop['kind'] != 'exhaust':
        k = stop['k']
        if len(want) >= k:
            want, fail_pos, ename = want[:k], None, None
    got = tr.delivered
    if c.get('shuffled') and c.get('epochs'):
        # fault-free, seeded: every epoch must be exactly the permutation the seeded generator yields for it
        import numpy as np
        rs = np.random.RandomState(c['shuffled'])
        perm = np.arange(c['n'])
        for e, got_e in enumerate(tr.epochs):
            rs.shuffle(perm)
            want_e = [result_value(c, int(i)) for i in perm]
            if got_e != want_e:
                raise Violation(f'epoch-order-wrong|{c["kind"]}-shuffled',
                                f'{describe(tr)}\nepoch {e}: delivered {got_e}\nthe equally seeded sequential '
                                f'pipeline delivers {want_e}')
        return
    if c.get('epochs') and not c.get('shuffled') and ename is None and stop['kind'] == 'exhaust':
        # several passes over the same object (a cache below the prefetch answers the later ones): all alike
        for e, got_e in enumerate(getattr(tr, 'epochs', [])):
            if got_e != want:
                raise Violation(f'epoch-values-wrong|{c["kind"]}',
                                f'{describe(tr)}\npass {e + 1} over the same object delivered {got_e}\nexpected {want}')
    if c.get('shuffled'):
        # random order: every failing example is caught (by construction of the case), compare as multisets
        if tr.exc is not None or sorted(map(repr, got)) != sorted(map(repr, want)):
            raise Violation(f'delivered-wrong|{c["kind"]}-shuffled', f'{describe(tr)}\ndelivered {got} ({tr.exc!r})\n'
                                                                     f'expected a permutation of {want}')
        return
    if got != want[:len(got)] or (len(got) < len(want)) or len(got) > len(want):
        sig = 'delivered-wrong'
        if len(got) < len(want) and got == want[:len(got)]:
            if tr.exc is None:
                sig = 'silently-truncated'
            else:
                sig = 'error-overtakes-results'
        raise Violation(f'{sig}|{c["kind"]}', f'{describe(tr)}\ndelivered {got}\nexpected  {want}'
                        + (f' then {ename} at position {fail_pos}' if ename else '')
                        + (f'\nraised {tr.exc!r}' if tr.exc is not None else ''))
    if c.get('dual') and stop['kind'] == 'exhaust' and ename is None:
        full, _, _, _ = expected_of(c)
        if getattr(tr, 'exc2', None) is not None or getattr(tr, 'delivered2', full) != full:
            raise Violation(f'second-iterator-disturbed|{c["kind"]}',
                            f'{describe(tr)}\na second iterator over the same dataset object delivered '
                            f'{getattr(tr, "delivered2", None)} ({getattr(tr, "exc2", None)!r}); expected {full}')
    if ename is None:
        if tr.exc is not None:
            raise Violation(f'unexpected-error|{c["kind"]}', f'{describe(tr)}\nraised {tr.exc!r} after {got}')
    else:
        if tr.exc is None:
            raise Violation(f'error-swallowed|{c["kind"]}',
                            f'{describe(tr)}\ndelivered {got} and ended normally; expected {ename} at {fail_pos}')
        if ename == 'StopIteration':
            # PEP 479: inside the library's generators it becomes a RuntimeError; what matters is that SOMETHING surfaces
            # at that position (a StopIteration that reaches the consumer's next() is a silent end, judged above)
            return
        if not any(tr.exc is e for e in tr.raised.get(fail_pos, [])):
            raise Violation(f'wrong-error|{c["kind"]}',
                            f'{describe(tr)}\nraised {tr.exc!r}; expected the exception object raised at position '
                            f'{fail_pos}: {tr.raised.get(fail_pos)!r}')
    if check_len and c['kind'] in ('pf', 'pm') and c.get('catch', False) is False:
        if tr.len_reported != c['n']:
            raise Violation(f'len-wrong|{c["kind"]}', f'{describe(tr)}\nlen() == {tr.len_reported}, expected {c["n"]}')


def readahead_profile(tr):
    """max over the event log of pulled-handed and started-handed."""
    pulled = started = handed = 0
    max_p = max_s = 0
    for _, _, kind, _ in tr.log:
        if kind == 'pull':
            pulled += 1
        elif kind == 'start':
            started += 1
        elif kind == 'handed':
            handed += 1
        max_p = max(max_p, pulled - handed)
        max_s = max(max_s, started - handed)
    return max_p, max_s


def judge_readahead(tr):
    """C07: at every event pulled - handed <= buffer + 2; on pool paths started - handed <= buffer."""
    c = tr.case
    import math
    b = math.ceil(max(c['buffer'], 0))  # a fractional buffer size (len(ds) / 16) holds ceil(b) examples
    if tr.construct_error is not None:
        return
    pulled = started = handed = 0
    for clock, _, kind, p in tr.log:
        if kind == 'pull':
            pulled += 1
        elif kind == 'start':
            started += 1
        elif kind == 'handed':
            handed += 1
        else:
            continue
        if pulled - handed > b + 2 + (c.get('buffer2', 1) + 2 if c['kind'] == 'pf2' else 0):
            raise Violation(f'readahead-pulled|{c["kind"]}',
                            f'{describe(tr)}\nat event {clock}: pulled {pulled}, handed {handed}, buffer {b}')
        pool = c['kind'] in ('lpm', 'pm') or (c['kind'] == 'pf' and c['workers'] > 1)
        limit = b if pool else b + 2
        if c['kind'] == 'pf2':
            limit = c.get('buffer2', 1) + 2 + b + 2
        if started - handed > limit:
            raise Violation(f'readahead-started|{c["kind"]}',
                            f'{describe(tr)}\nat event {clock}: started {started}, handed {handed}, buffer {b}')


def reordered(tr):
    ends = [p for _, _, kind, p in tr.log if kind == 'end']
    return ends != sorted(ends)


# ---------------------------------------------------------------------------------------------------------------------
# generators


@st.composite
def st_sched(draw, max_len=400):
    mode = draw(st.sampled_from(['list', 'prng', 'prng', 'points']))
    if mode == 'prng':
        # a long uniformly random choice sequence from a drawn seed: Hypothesis' own lists are biased towards short /
        # zero-heavy values (good for shrinking, poor at keeping several threads interleaved for a whole run)
        return {'mode': 'prng', 'seed': draw(st.integers(0, 2 ** 31)), 'spread': draw(st.sampled_from([1, 3, 3]))}
    if mode == 'list':
        # a choice list: mostly "continue" with occasional switches, or uniformly random
        dense = draw(st.sampled_from([True, True, False]))
        elems = st.integers(0, 3) if dense else st.sampled_from([0, 0, 0, 0, 0, 1, 2])
        return {'mode': 'list', 'choices': draw(st.lists(elems, min_size=0, max_size=max_len))}
    pts = draw(st.lists(st.tuples(st.integers(0, 250), st.integers(1, 3)), min_size=0, max_size=4))
    return {'mode': 'points', 'points': {str(k): v for k, v in pts}}


@st.composite
def st_case(draw, profile):
    """profile: 'plain' (C04), 'stop' (C05), 'fault' (C06), 'readahead' (C07)."""
    kind = draw(st.sampled_from(KINDS))
    if profile == 'readahead':
        w = 1 if kind in ('stp', 'pf2') else draw(st.integers(1, 3))
        b = draw(st.integers(w, 4))
        n = draw(st.integers(b + 1, 5 * b + 7))
    else:
        n = draw(st.integers(0, 6))
        w = 1 if kind in ('stp', 'pf2') else draw(st.integers(1, 3))
        if profile == 'stop':
            b = draw(st.sampled_from([w, w, w + 1, 4, 1 if w == 1 else w]))
        else:
            b = draw(st.integers(w, 4))
    case = {'kind': kind, 'n': n, 'workers': w, 'buffer': b}
    if kind == 'pf2':
        case['buffer2'] = draw(st.integers(1, 3))
    if kind in ('pf', 'pm', 'pf2') and profile in ('plain', 'fault') and draw(st.integers(0, 3)) == 0:
        case['dual'] = True
    if kind in ('pf', 'pm'):
        keyed = draw(st.booleans())
        if keyed and not (kind == 'pf' and w > 1):
            case['with_key'] = True
        elif keyed:
            case['src'] = 'dict'
    if kind == 'pm' and 'with_key' not in case and draw(st.integers(0, 2)) == 0:
        case['batched'] = True
    case['yields'] = draw(st.lists(st.integers(0, 3), min_size=n, max_size=n)) if n <= 8 else []
    if n and draw(st.integers(0, 3)) == 0:
        case['none_at'] = draw(st.lists(st.integers(0, n - 1), min_size=1, max_size=2, unique=True))
    if kind in ('pf', 'pm') and draw(st.integers(0, 3)) == 0:
        case['copy'] = True
    if draw(st.integers(0, 2)) == 0:
        # examples that are arrays, exception objects, falsy, or refuse ==/bool()/len() altogether
        case['vk'] = draw(st.sampled_from(progs.VALUE_KINDS[1:]))
    if n and 'with_key' not in case and draw(st.integers(0, 4)) == 0:
        case['src_none'] = draw(st.integers(0, n - 1))
    if profile in ('plain', 'stop') and kind in ('lpm', 'pm', 'pf') and w >= 2 and 1 <= n <= 4 and draw(st.integers(0, 5)) == 0:
        case['nested_pool'] = draw(st.integers(1, n))  # position (1-based) whose evaluation runs an inner pool  # a None example in the SOURCE (input of the function)
    if profile in ('plain', 'readahead') and kind != 'pf2' and draw(st.integers(0, 7)) == 0:
        case['buffer'] = b + 0.5  # buffer sizes are often computed (len(ds) / 16): not necessarily an int
    if profile == 'readahead' and kind == 'pf' and w == 1 and draw(st.integers(0, 9)) == 0:
        case['buffer'] = 0  # must be rejected (or, if accepted, still obey the bound)
    elif profile == 'readahead' and kind in ('pf', 'pm', 'lpm') and w >= 2 and draw(st.integers(0, 7)) == 0:
        case['buffer'] = w - 1  # fewer buffer slots than workers: rejected, or the bound of the REQUESTED size holds
    if kind == 'lpm' and profile in ('readahead', 'plain') and draw(st.integers(0, 5)) == 0:
        # backend=False (no pool, everything in the consumer): any buffer size >= 1 is legal, also below max_workers.
        # Not in the fault profile: nothing runs in the background there, and a failing function indeed loses the
        # results buffered before it (observed, outside C06's statement)
        case['serial'] = True
        if profile == 'readahead':
            case['buffer'] = draw(st.integers(1, max(1, w)))
    if profile in ('plain', 'stop', 'fault') and kind in ('lpm', 'pm') and not case.get('serial') \
            and 'dual' not in case and draw(st.integers(0, 4 if profile != 'stop' else 2)) == 0:
        # the input of the parallel map is a single-thread prefetch: two kinds of background threads, and a consumer
        # stop has to wind down both (closing the input joins its hand-over thread)
        case['under_pf1'] = draw(st.integers(1, 3))
    if kind == 'lpm' and not case.get('under_pf1') and not case.get('serial') and profile in ('plain', 'readahead', 'stop') \
            and draw(st.integers(0, 3)) == 0:
        case['input_as'] = draw(st.sampled_from(['list', 'tuple']))
    if n >= 2 and draw(st.integers(0, 3)) > 0:
        # one slow task (many internal yield points): what makes later tasks finish before earlier ones
        case['slow'] = [draw(st.integers(0, n - 2)), draw(st.integers(8, 40))]
    if profile == 'fault':
        positions = list(range(n))
        if n:
            fails = draw(st.lists(st.sampled_from(positions), min_size=1, max_size=min(n, 3), unique=True))
        else:
            fails = []
        src_fail, fn_fail = {}, {}
        for p in fails:
            e = draw(st.sampled_from(EXCS))
            if e == 'VFalsy' and not (kind in ('stp', 'pf2') or (kind == 'pf' and w == 1)):
                e = 'VErrA'  # falsy exceptions: only where lazy_dataset itself hands the error over (see DESIGN)
            if draw(st.booleans()):
                src_fail[str(p)] = e
            else:
                fn_fail[str(p)] = e
        if fn_fail and (kind in ('lpm', 'pm') or (kind == 'pf' and w > 1)) and draw(st.integers(0, 5)) == 0:
            # a bare next() inside the user function: StopIteration out of a pool task
            fn_fail[sorted(fn_fail)[-1]] = 'StopIteration'
        case['src_fail'], case['fn_fail'] = src_fail, fn_fail
        iter_fail = (kind in ('stp', 'lpm') or (kind == 'pf' and w == 1)) and draw(st.integers(0, 5)) == 0
        if kind == 'pf':
            case['catch'] = draw(st.sampled_from([False, 'VErrA', ['VErrA', 'VErrC'], 'VErrB', ['VBase', 'VErrA']]))
            if 'dual' in case and case['catch'] is not False:
                case.pop('dual')
            if case['catch'] is not False and draw(st.integers(0, 2)) == 0:
                # a reshuffle below the catching prefetch; only failures the catch set covers, no source failures
                spec = case['catch']
                for p in list(fn_fail):
                    fn_fail[p] = 'VErrA' if spec != 'VErrB' else 'VErrB'
                case['src_fail'] = {}
                for p in list(src_fail):
                    fn_fail[p] = 'VErrA' if spec != 'VErrB' else 'VErrB'
                case['fn_fail'] = fn_fail
                case['shuffled'] = draw(st.integers(1, 99))
                case.pop('with_key', None)
            if case['catch'] is not False:
                case.pop('with_key', None) if w > 1 else None
        if kind == 'pf' and n >= 2 and not iter_fail and not case.get('shuffled') and 'dual' not in case \
                and draw(st.integers(0, 3)) == 0:
            case['src'] = 'keyzip_concat'
            case.pop('with_key', None)
            case.pop('src_none', None)
        if iter_fail:
            # the source fails when iteration over it starts (before the first example), nothing else fails
            case['iter_fail'] = draw(st.sampled_from(['VErrA', 'VErrC', 'VBase']))
            case['src_fail'], case['fn_fail'] = {}, {}
            for k in ('with_key', 'src', 'dual', 'copy', 'src_none', 'shuffled', 'catch'):
                case.pop(k, None)
    if profile == 'plain' and kind in ('pf', 'pm') and n >= 2 and 'with_key' not in case and draw(st.integers(0, 3)) == 0:
        case['src'] = draw(st.sampled_from(['concat', 'keyzip_sel']))
        case['trace_core'] = draw(st.booleans()) or case['src'] == 'keyzip_sel'
        if case['src'] == 'keyzip_sel':
            case.pop('src_none', None)
    if profile == 'plain' and kind == 'pf' and n >= 2 and draw(st.integers(0, 3)) == 0:
        # a seeded per-epoch reshuffle below the prefetch, several epochs over the same object
        case['shuffled'] = draw(st.integers(1, 99))
        case['epochs'] = 2
        case.pop('with_key', None)
        case.pop('dual', None)
        case.pop('none_at', None)
        case['src'] = 'list'
    elif profile == 'plain' and kind == 'pf' and draw(st.integers(0, 2)) == 0:
        # catching enabled, nothing raises: still every example (also a None example) exactly once
        case['catch'] = draw(st.sampled_from([True, 'VErrA']))
        if w > 1:
            case.pop('with_key', None)
    if profile == 'stop':
        sk = draw(st.sampled_from(['exhaust', 'close', 'close', 'del', 'gc', 'throw', 'close_other']))
        case['stop'] = {'kind': sk, 'k': draw(st.integers(0, n + 1)) if sk != 'exhaust' else 0}
        if draw(st.integers(0, 3)) == 0 and n:
            p = draw(st.integers(0, n - 1))
            e = draw(st.sampled_from(EXCS[:-1]))
            if draw(st.booleans()):
                case['src_fail'] = {str(p): e}
            else:
                case['fn_fail'] = {str(p): e}
    if profile == 'readahead' or draw(st.integers(0, 2)) == 0:
        case['pauses'] = draw(st.lists(st.integers(0, n), min_size=0, max_size=4, unique=True))
    if profile == 'readahead' and kind == 'pf' and draw(st.booleans()):
        case['catch'] = draw(st.sampled_from([True, 'VErrA']))
        case.pop('with_key', None) if w > 1 else None
    if case.get('input_as') and (case.get('src_fail') or case.get('src_none') is not None and False):
        case.pop('input_as')  # an in-memory sequence cannot fail while it is read
    case['sched'] = draw(st_sched())
    return case


# ---------------------------------------------------------------------------------------------------------------------
# stateless DFS over all schedules with a bounded number of preemptions (prefix replay)


def dfs_schedules(workload, max_preempt, judge, on_run, trace_lines=True, budget=200000):
    """Enumerate every schedule of `workload` that deviates from run-to-block at <= max_preempt decisions.

    A schedule is {decision index: candidate index}; children extend a schedule only at later decisions, so every
    schedule is visited exactly once. Returns the number of runs."""
    runs = 0
    stack = [{}]
    while stack:
        pts = stack.pop()
        case = dict(workload, sched={'mode': 'points', 'points': {str(k): v for k, v in pts.items()}})
        tr = run_case(case, trace_lines=trace_lines)
        runs += 1
        try:
            judge(tr)
        except Violation as v:
            v.case = case
            raise
        on_run(case, tr)
        if runs >= budget:
            raise RuntimeError(f'DFS budget of {budget} runs exceeded for {workload}')
        if len(pts) < max_preempt:
            last = max(pts) if pts else -1
            for d, (ncand, chosen) in enumerate(tr.sched.decisions):
                if d <= last:
                    continue
                for alt in range(1, ncand):
                    child = dict(pts)
                    child[d] = alt
                    stack.append(child)
    return runs
