"""detsched - a schedule-owning harness for the real threaded code of lazy_dataset.parallel_utils.

Every logical thread is a real OS thread, but exactly one holds the baton; all scheduling decisions are taken by a
chooser (Hypothesis-drawn / enumerated), so an execution is a pure function of (workload, choice list) and replayable.
Scheduling points: every source line of parallel_utils.py (sys.settrace), every operation of the stand-in
queue / thread / executor primitives, and explicit event() calls of instrumented sources and functions.
Deadlock is exact: a thread blocks and no thread is enabled while some thread is unfinished.
"""
import sys
import threading as _rt
import types


class Abort(BaseException):
    """Unwinds every logical thread after a deadlock / step limit (never seen by the code under test as a value)."""


class CancelledError(Exception):
    pass


class Empty(Exception):
    pass


class Full(Exception):
    pass


class LThread:
    def __init__(self, sched, tid, name):
        self.sched = sched
        self.tid = tid
        self.name = name
        self.sem = _rt.Semaphore(0)
        self.finished = False
        self.started = False
        self.pred = None  # blocked while pred is not None and pred() is False
        self.why = None
        self.real = None
        self.timeout_budget = 2  # how often a timed wait of this thread may still expire (reset by quiesce)

    def enabled(self):
        return self.started and not self.finished and (self.pred is None or self.pred())

    def __repr__(self):
        return f'<{self.name}>'


class Scheduler:
    def __init__(self, chooser, trace_files=(), max_steps=200000):
        self.chooser = chooser
        self.trace_files = set(trace_files)
        self.max_steps = max_steps
        self.block_hooks = []
        self.threads = []
        self.current = None
        self.aborting = False
        self.deadlock = None  # description when a deadlock was detected
        self.step_limit_hit = False
        self.steps = 0
        self.clock = 0
        self.log = []  # (clock, thread name, kind, payload)
        self.decisions = []  # (number of candidates, chosen index) for every decision with > 1 candidates
        self.executed = []  # thread ids in execution order at decision points (schedule fingerprint)
        self.preemptions = 0
        self.max_enabled = 1
        self._by_ident = {}
        self.main = self._new_thread('main')
        self.main.started = True

    # ------------------------------------------------------------------ threads
    def _new_thread(self, name):
        t = LThread(self, len(self.threads), name)
        self.threads.append(t)
        return t

    def me(self):
        return self._by_ident.get(_rt.get_ident())

    def spawn(self, name, target):
        """Create a logical thread (not yet runnable until start_thread)."""
        t = self._new_thread(name)

        def boot():
            self._by_ident[_rt.get_ident()] = t
            t.sem.acquire()
            try:
                if self.aborting:
                    return
                sys.settrace(self._tracer)
                try:
                    target()
                except Abort:
                    pass
            finally:
                sys.settrace(None)
                t.finished = True
                self._handoff_after_finish(t)

        t.real = _rt.Thread(target=boot, name=f'detsched-{name}', daemon=True)
        return t

    def start_thread(self, t):
        t.started = True
        t.real.start()

    def _handoff_after_finish(self, t):
        if self.aborting:
            return
        cands = [x for x in self.threads if x.enabled()]
        if not cands:
            if any(not x.finished and x.started for x in self.threads):
                self._declare_deadlock()
            return
        nxt = self._choose(cands, None)
        self.current = nxt
        nxt.sem.release()

    # ------------------------------------------------------------------ scheduling
    def _choose(self, cands, cur):
        if len(cands) == 1:
            return cands[0]
        self.max_enabled = max(self.max_enabled, len(cands))
        # candidate 0 is "continue the current thread" when possible: an all-zero choice list is the run-to-block
        # schedule and Hypothesis shrinks towards it
        order = sorted(cands, key=lambda x: (x is not cur, x.tid))
        i = self.chooser(len(order), len(self.decisions), [x.tid for x in order]) % len(order)
        self.decisions.append((len(order), i))
        pick = order[i]
        if cur is not None and cur in cands and pick is not cur:
            self.preemptions += 1
        self.executed.append(pick.tid)
        return pick

    def _switch(self, cur, target):
        if target is cur:
            return
        self.current = target
        target.sem.release()
        cur.sem.acquire()
        if self.aborting:
            raise Abort()

    def _declare_deadlock(self):
        blocked = [(t.name, t.why) for t in self.threads if t.started and not t.finished]
        self.deadlock = f'no thread enabled; blocked: {blocked}'
        self._abort_all()

    def _abort_all(self):
        self.aborting = True
        for t in self.threads:
            t.sem.release()

    def yield_point(self, kind='op', payload=None):
        cur = self.me()
        if cur is None:
            return
        if self.aborting:
            raise Abort()
        self.steps += 1
        if self.steps > self.max_steps:
            self.step_limit_hit = True
            self._abort_all()
            raise Abort()
        cands = [x for x in self.threads if x.enabled()]
        nxt = self._choose(cands, cur)
        self._switch(cur, nxt)

    def block_until(self, pred, why):
        cur = self.me()
        if self.aborting:
            raise Abort()
        cur.pred, cur.why = pred, why
        if self.block_hooks and not pred():
            for hook in self.block_hooks:
                hook(cur, why)  # the thread really has to wait (it is not merely descheduled)
        try:
            while not pred():
                cands = [x for x in self.threads if x is not cur and x.enabled()]
                if not cands:
                    self._declare_deadlock()
                    raise Abort()
                nxt = self._choose(cands, None)
                self._switch(cur, nxt)
        finally:
            cur.pred, cur.why = None, None

    def timed_wait(self, cond, why):
        """Blocking wait with a timeout: may also be woken by the scheduler although cond() is false (the timeout
        expired; bounded by a per-thread budget so that retry loops cannot spin forever). Returns cond()."""
        cur = self.me()
        self.block_until(lambda: cond() or cur.timeout_budget > 0, why + ' (timed)')
        if cond():
            return True
        cur.timeout_budget -= 1
        return False

    def quiesce(self):
        """The consumer pauses arbitrarily long: run every other thread until none of them is enabled."""
        cur = self.me()
        for t in self.threads:
            t.timeout_budget = 2
        self.block_until(lambda: not any(x.enabled() for x in self.threads if x is not cur), 'quiesce')

    def event(self, kind, payload=None, yield_after=True):
        cur = self.me()
        self.clock += 1
        self.log.append((self.clock, cur.name if cur else '?', kind, payload))
        if yield_after and cur is not None:
            self.yield_point('event')

    # ------------------------------------------------------------------ tracing
    def _tracer(self, frame, event, arg):
        if event == 'call' and frame.f_code.co_filename in self.trace_files:
            return self._local
        return None

    def _local(self, frame, event, arg):
        if event == 'line':
            self.yield_point('line')
        return self._local

    # ------------------------------------------------------------------ running
    def run(self, fn):
        """Run fn() as the main logical thread. Returns (result, outcome) with outcome in ok/deadlock/steplimit."""
        self._by_ident[_rt.get_ident()] = self.main
        self.current = self.main
        old = sys.gettrace()
        result = None
        outcome = 'ok'
        sys.settrace(self._tracer)
        try:
            result = fn()
        except Abort:
            outcome = 'deadlock' if self.deadlock else 'steplimit'
        finally:
            sys.settrace(old)
            self.main.finished = True
            if not self.aborting:
                # let everything that is still runnable finish; what stays blocked is leaked
                self._abort_all()
            for t in self.threads[1:]:
                if t.real is not None and t.real.ident is not None:
                    t.real.join(10)
            self._by_ident.pop(_rt.get_ident(), None)
        if self.deadlock:
            outcome = 'deadlock'
        elif self.step_limit_hit:
            outcome = 'steplimit'
        return result, outcome

    def unfinished(self):
        return [t.name for t in self.threads[1:] if t.started and not t.finished]

    def os_threads_alive(self):
        return [t.name for t in self.threads[1:] if t.real is not None and t.real.is_alive()]


# ---------------------------------------------------------------------------------------------------------------------
# stand-in primitives


def make_namespace(sched):
    """Stand-ins for the names `queue`, `threading`, `concurrent` that parallel_utils looks up in its globals."""

    class Queue:
        def __init__(self, maxsize=0):
            self.maxsize = maxsize
            self.items = []

        @property
        def queue(self):
            # the real class exposes its deque; code that peeks at the head (`q.queue[0]`) must find it here too
            return self.items

        @property
        def mutex(self):
            if getattr(self, '_mutex', None) is None:
                self._mutex = Lock()  # an owned lock (defined below), so that `with q.mutex:` is a scheduling point
            return self._mutex

        def _full(self):
            return 0 < self.maxsize <= len(self.items)

        def put(self, item, block=True, timeout=None):
            sched.yield_point('q.put')
            if self._full():
                if not block:
                    raise Full()
                if timeout is not None:
                    if not sched.timed_wait(lambda: not self._full(), 'queue.put on a full queue'):
                        raise Full()
                else:
                    sched.block_until(lambda: not self._full(), 'queue.put on a full queue')
            self.items.append(item)

        def get(self, block=True, timeout=None):
            sched.yield_point('q.get')
            if not self.items:
                if not block:
                    raise Empty()
                if timeout is not None:
                    if not sched.timed_wait(lambda: bool(self.items), 'queue.get on an empty queue'):
                        raise Empty()
                else:
                    sched.block_until(lambda: bool(self.items), 'queue.get on an empty queue')
            return self.items.pop(0)

        def get_nowait(self):
            return self.get(block=False)

        def put_nowait(self, item):
            return self.put(item, block=False)

        def qsize(self):
            sched.yield_point('q.qsize')
            return len(self.items)

        def empty(self):
            sched.yield_point('q.empty')
            return not self.items

        def full(self):
            sched.yield_point('q.full')
            return self._full()

    class LifoQueue(Queue):
        def get(self, block=True, timeout=None):
            sched.yield_point('q.get')
            if not self.items:
                if not block:
                    raise Empty()
                sched.block_until(lambda: bool(self.items), 'queue.get on an empty queue')
            return self.items.pop()

    class Thread:
        _count = [0]

        def __init__(self, target=None, args=(), kwargs=None, name=None, daemon=None):
            Thread._count[0] += 1
            self._lt = sched.spawn(name or f'thread{Thread._count[0]}', lambda: target(*args, **(kwargs or {})))
            self.daemon = daemon

        def start(self):
            sched.yield_point('thread.start')
            sched.start_thread(self._lt)

        def join(self, timeout=None):
            sched.yield_point('thread.join')
            lt = self._lt
            if timeout is not None:
                sched.timed_wait(lambda: lt.finished or not lt.started, f'join {lt.name}')
                return
            sched.block_until(lambda: lt.finished or not lt.started, f'join {lt.name}')

        def is_alive(self):
            return self._lt.started and not self._lt.finished

    class Future:
        def __init__(self, fn, args, kwargs, seq):
            self.fn, self.args, self.kwargs, self.seq = fn, args, kwargs, seq
            self.state = 'pending'  # pending / running / done / cancelled
            self._result = None
            self._exc = None

        def cancel(self):
            sched.yield_point('future.cancel')
            if self.state == 'pending':
                self.state = 'cancelled'
                return True
            return self.state == 'cancelled'

        def cancelled(self):
            return self.state == 'cancelled'

        def done(self):
            return self.state in ('done', 'cancelled')

        def running(self):
            return self.state == 'running'

        def result(self, timeout=None):
            sched.yield_point('future.result')
            if not self.done():
                if timeout is not None:
                    if not sched.timed_wait(self.done, f'future.result of task {self.seq}'):
                        raise TimeoutError()
                else:
                    sched.block_until(self.done, f'future.result of task {self.seq}')
            if self.state == 'cancelled':
                raise CancelledError()
            if self._exc is not None:
                raise self._exc
            return self._result

        def exception(self, timeout=None):
            sched.yield_point('future.exception')
            if not self.done():
                sched.block_until(self.done, f'future.exception of task {self.seq}')
            if self.state == 'cancelled':
                raise CancelledError()
            return self._exc

    class Executor:
        pass

    class ThreadPoolExecutor(Executor):
        """Model of concurrent.futures.ThreadPoolExecutor: FIFO work queue, at most max_workers workers, cancel only
        while pending, shutdown(wait=True) lets pending non-cancelled work run and joins the workers."""
        instances = []

        def __init__(self, max_workers=None, *a, **kw):
            if max_workers is not None and max_workers <= 0:
                raise ValueError('max_workers must be greater than 0')  # as the real executor
            self.max_workers = max_workers or 4
            self.work = []
            self.workers = []
            self.idle = 0
            self._shutdown = False
            self.seq = 0
            self.futures = []
            self.pending_at_shutdown = None
            me = sched.me()
            self.creator = me.tid if me is not None else None  # which logical thread owns this pool
            ThreadPoolExecutor.instances.append(self)

        def submit(self, fn, *args, **kwargs):
            sched.yield_point('executor.submit')
            if self._shutdown:
                raise RuntimeError('cannot schedule new futures after shutdown')
            f = Future(fn, args, kwargs, self.seq)
            self.seq += 1
            self.futures.append(f)
            self.work.append(f)
            if self.idle == 0 and len(self.workers) < self.max_workers:
                lt = sched.spawn(f'pool-worker{len(self.workers)}', self._worker)
                self.workers.append(lt)
                sched.start_thread(lt)
            return f

        def _worker(self):
            while True:
                self.idle += 1
                try:
                    sched.block_until(lambda: bool(self.work) or self._shutdown, 'worker waiting for work')
                finally:
                    self.idle -= 1
                if not self.work:
                    return  # shutdown and nothing left
                f = self.work.pop(0)
                sched.yield_point('worker.take')
                if f.state != 'pending':
                    continue
                f.state = 'running'
                try:
                    r = f.fn(*f.args, **f.kwargs)
                except Abort:
                    raise
                except BaseException as e:  # the real executor stores BaseException as well
                    f._exc = e
                else:
                    f._result = r
                f.state = 'done'
                sched.yield_point('worker.done')

        def map(self, fn, *iterables, timeout=None, chunksize=1):
            # as the real executor: every call is submitted AT ONCE, the results come back lazily and in order; the
            # remaining futures are cancelled when the result iterator is closed
            fs = [self.submit(fn, *args) for args in zip(*iterables)]

            def result_iterator():
                try:
                    fs.reverse()
                    while fs:
                        yield fs.pop().result()
                finally:
                    for f in fs:
                        f.cancel()
            return result_iterator()

        def shutdown(self, wait=True, cancel_futures=False):
            sched.yield_point('executor.shutdown')
            if self.pending_at_shutdown is None:
                self.pending_at_shutdown = [f.seq for f in self.work if f.state == 'pending']
            self._shutdown = True
            if cancel_futures:
                for f in self.work:
                    if f.state == 'pending':
                        f.state = 'cancelled'
            if wait:
                ws = list(self.workers)
                sched.block_until(lambda: all(w.finished for w in ws), 'executor.shutdown(wait=True)')

        def __enter__(self):
            return self

        def __exit__(self, *exc):
            self.shutdown(wait=True)
            return False

    import threading as _real_threading

    class Lock:
        """threading.Lock under the owned schedule (a change to the library may well introduce one)."""

        def __init__(self):
            self._owner = None

        def acquire(self, blocking=True, timeout=-1):
            sched.yield_point('lock.acquire')
            if self._owner is not None:
                if not blocking:
                    return False
                if timeout is not None and timeout >= 0:
                    if not sched.timed_wait(lambda: self._owner is None, 'lock.acquire'):
                        return False
                else:
                    sched.block_until(lambda: self._owner is None, 'lock.acquire')
            self._owner = _real_threading.get_ident()
            return True

        def release(self):
            self._owner = None
            sched.yield_point('lock.release')

        def locked(self):
            return self._owner is not None

        def __enter__(self):
            self.acquire()
            return self

        def __exit__(self, *exc):
            self.release()
            return False

    class RLock(Lock):
        def __init__(self):
            super().__init__()
            self._count = 0

        def acquire(self, blocking=True, timeout=-1):
            if self._owner == _real_threading.get_ident():
                self._count += 1
                return True
            ok = super().acquire(blocking, timeout)
            if ok:
                self._count = 1
            return ok

        def release(self):
            self._count -= 1
            if self._count == 0:
                super().release()

    class Event:
        def __init__(self):
            self._flag = False

        def is_set(self):
            return self._flag

        def set(self):
            self._flag = True
            sched.yield_point('event.set')

        def clear(self):
            self._flag = False

        def wait(self, timeout=None):
            sched.yield_point('event.wait')
            if not self._flag:
                if timeout is None:
                    sched.block_until(lambda: self._flag, 'event.wait')
                else:
                    sched.timed_wait(lambda: self._flag, 'event.wait')
            return self._flag

    class _Threading:
        """Stand-in for the name `threading`: owned primitives, everything else from the real module."""

        def __getattr__(self, name):
            return getattr(_real_threading, name)
    _threading = _Threading()
    _threading.Thread, _threading.Lock, _threading.RLock, _threading.Event = Thread, Lock, RLock, Event

    ThreadPoolExecutor.instances = []
    futures = types.SimpleNamespace(ThreadPoolExecutor=ThreadPoolExecutor, Executor=Executor, Future=Future,
                                    CancelledError=CancelledError,
                                    ProcessPoolExecutor=None)
    ns = {
        'queue': types.SimpleNamespace(Queue=Queue, LifoQueue=LifoQueue, Empty=Empty, Full=Full),
        'threading': _threading,
        'concurrent': types.SimpleNamespace(futures=futures),
    }
    ns['__lock_types__'] = (Lock, RLock)
    return ns, ThreadPoolExecutor


class Patched:
    """Context manager: swap the stand-ins into lazy_dataset.parallel_utils for one case."""

    def __init__(self, sched):
        import lazy_dataset.parallel_utils as pu
        self.pu = pu
        self.ns, self.executor_cls = make_namespace(sched)
        self.saved = {}

    def __enter__(self):
        import threading
        lock_cls, rlock_cls = self.ns.pop('__lock_types__')
        for k, v in self.ns.items():
            self.saved[k] = getattr(self.pu, k)
            setattr(self.pu, k, v)
        # locks that the module created at import time (module-level state a change may introduce) are real OS locks:
        # a logical thread that is switched out while holding one would block the whole schedule - own them too
        real = {type(threading.Lock()): lock_cls, type(threading.RLock()): rlock_cls}
        for k, v in list(vars(self.pu).items()):
            if type(v) in real and k not in self.saved:
                self.saved[k] = v
                setattr(self.pu, k, real[type(v)]())
        return self

    def __exit__(self, *exc):
        for k, v in self.saved.items():
            setattr(self.pu, k, v)
        return False


# ---------------------------------------------------------------------------------------------------------------------
# choosers


def chooser_from_list(choices):
    """choices[i] is the candidate index at the i-th decision (0 = continue current); beyond the list: 0."""
    def choose(ncand, decision_idx, tids):
        return choices[decision_idx] if decision_idx < len(choices) else 0
    return choose


def chooser_preemptions(points):
    """points: {decision index: candidate index}; run-to-block elsewhere (bounded-preemption schedules)."""
    points = {int(k): v for k, v in dict(points).items()}

    def choose(ncand, decision_idx, tids):
        return points.get(decision_idx, 0)
    return choose
