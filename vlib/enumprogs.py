"""Bounded-exhaustive enumeration of pipeline programs: every chain of stage templates up to a depth over small
sources. A template is a function (node, model) -> new node or None; invalid combinations are pruned by the model."""
from . import progs
from .refmodel import Invalid, ev


def sources():
    sid = 1
    for n in range(0, 4):
        yield {'op': 'list', 'id': sid, 'n': n, 'mode': 'pickle', 'dup': False}
        yield {'op': 'dict', 'id': sid, 'keys': progs.KEY_ALPHABET[:n], 'mode': 'pickle'}
    yield {'op': 'list', 'id': sid, 'n': 2, 'mode': 'wu', 'dup': False}
    yield {'op': 'list', 'id': sid, 'n': 3, 'mode': 'copy', 'dup': True}


def _u(op, **kw):
    return lambda node, m: dict({'op': op, 'in': node}, **kw)


def _slice(form):
    return lambda node, m: {'op': 'slice', 'form': form, 'in': node} if m.indexable else None


def _ilist(how):
    def t(node, m):
        if not m.indexable or m.n < 1:
            return None
        return {'op': 'slice', 'form': {'k': 'ilist', 'idx': [-1, 0, 0][:m.n + 1], 'as': how}, 'in': node}
    return t


def _mask(node, m):
    if not m.indexable:
        return None
    return {'op': 'slice', 'form': {'k': 'mask', 'bits': [i % 2 == 0 for i in range(m.n)]}, 'in': node}


def _mask_list(node, m):
    if not m.indexable:
        return None
    return {'op': 'slice', 'form': {'k': 'mask', 'bits': [i % 2 == 1 for i in range(m.n)], 'as': 'list'}, 'in': node}


def _keys(node, m):
    if not (m.indexable and m.cap_keys == 'req' and not m.taint and m.keys and len(set(m.keys)) == len(m.keys)):
        return None
    return {'op': 'slice', 'form': {'k': 'keys', 'keys': list(m.keys[::-1]) + [m.keys[0]], 'as': 'list'}, 'in': node}


def _shard(node, m):
    if not m.indexable or m.n < 2:
        return None
    return {'op': 'shard', 'k': 2, 'i': 1, 'via': 'shard', 'in': node}


def _concat(kind):
    def t(node, m):
        other = {'op': 'list', 'id': 7, 'n': 2, 'mode': 'pickle', 'dup': False} if kind == 'list' else \
            {'op': 'dict', 'id': 7, 'keys': ['a', 'x'], 'mode': 'pickle'}
        return {'op': 'concat', 'how': 'method', 'ins': [node, other]}
    return t


def _intersperse(node, m):
    if not (m.sized and m.n >= 1):
        return None
    return {'op': 'intersperse', 'how': 'method',
            'ins': [node, {'op': 'dict', 'id': 8, 'keys': ['p', 'q'], 'mode': 'pickle'}]}


def _zip(node, m):
    if not m.sized:
        return None
    return {'op': 'zip', 'how': 'method', 'ins': [node, {'op': 'list', 'id': 9, 'n': m.n, 'mode': 'pickle',
                                                         'dup': False}]}


def _key_zip(node, m):
    if not (m.cap_keys == 'req' and m.cap_str == 'req' and not m.taint and m.keys):
        return None
    return {'op': 'key_zip', 'how': 'method',
            'ins': [node, {'op': 'dict', 'id': 10, 'keys': sorted(set(m.keys))[::-1], 'mode': 'pickle'}]}


TEMPLATES = [
    ('map', _u('map', fn=0)),
    ('nonemap', _u('nonemap', m=2, r=0)),
    ('filter_lazy', _u('filter', m=2, r=0, lazy=True)),
    ('filter_eager', _u('filter', m=2, r=1, lazy=False, int=True)),
    ('slice_tail', _slice({'k': 'slice', 'a': 1, 'b': None, 'c': None})),
    ('slice_rev', _slice({'k': 'slice', 'a': None, 'b': None, 'c': -1})),
    ('slice_step2', _slice({'k': 'slice', 'a': None, 'b': -1, 'c': 2})),
    ('slice_empty', _slice({'k': 'slice', 'a': 0, 'b': 0, 'c': None})),
    ('ilist_list', _ilist('list')),
    ('ilist_np', _ilist('np64')),
    ('ilist_nonzero_style', _ilist('nested_np')),
    ('mask', _mask),
    ('mask_pylist', _mask_list),
    ('keylist', _keys),
    ('batch2', _u('batch', n=2, drop_last=False)),
    ('batch2_drop', _u('batch', n=2, drop_last=True)),
    ('unbatch', _u('unbatch')),
    ('items', _u('items')),
    ('tile2', _u('tile', r=2)),
    ('cache_lazy', _u('cache', lazy=True)),
    ('cache_eager', _u('cache', lazy=False)),
    ('catch', _u('catch', exc=None)),
    ('copy', _u('copy', freeze=False)),
    ('prefetch1', _u('prefetch', workers=1, buffer=1, catch=False)),
    ('prefetch2', _u('prefetch', workers=2, buffer=2, catch=False)),
    ('shuffle_once', _u('shuffle_once', seed=0)),
    ('sort_key', _u('sort', key=2, reverse=False, sort_fn=None)),
    ('sort_keyless_rev', _u('sort', key=None, reverse=True, sort_fn=None)),
    ('sort_key_inverting_fn', _u('sort', key=2, reverse=False, sort_fn='inverting')),
    ('shard', _shard),
    ('boom', _u('boom', m=2, r=0, exc='FilterException', fn=1)),
    ('boom_a', _u('boom', m=2, r=1, exc='VErrA', fn=2)),
    ('prefetch2_catch', _u('prefetch', workers=2, buffer=2, catch=['VErrA', 'VErrC'])),
    ('prefetch1_catch', _u('prefetch', workers=1, buffer=1, catch=True)),
    ('catch_a', _u('catch', exc='VErrA')),
    ('catch_tuple', _u('catch', exc=['VErrA', 'VErrC'])),
    ('concat_list', _concat('list')),
    ('concat_dict', _concat('dict')),
    ('intersperse', _intersperse),
    ('zip', _zip),
    ('key_zip', _key_zip),
    ('reshuffle', _u('reshuffle', seed=0)),
    ('local_shuffle', _u('local_shuffle', buffer=2, seed=0)),
    ('parmap', _u('parmap', fn=2, workers=2, buffer=2)),
    ('frag', _u('frag')),
]


def extend(node, m):
    for name, t in TEMPLATES:
        try:
            new = t(node, m)
        except Exception:
            new = None
        if new is None:
            continue
        try:
            m2 = ev(new)
        except Invalid:
            continue
        except Exception:
            continue
        yield name, new, m2


def enum_programs(depth):
    """Yields (names tuple, node) for every valid chain of up to `depth` templates over every source."""
    for src in sources():
        frontier = [((), src, ev(src))]
        yield (), src
        for d in range(depth):
            nxt = []
            for names, node, m in frontier:
                for name, new, m2 in extend(node, m):
                    yield names + (name,), new
                    nxt.append((names + (name,), new, m2))
            frontier = nxt


def _src(kind, sid, n):
    if kind == 'list':
        return {'op': 'list', 'id': sid, 'n': n, 'mode': 'pickle', 'dup': False}
    return {'op': 'dict', 'id': sid, 'keys': [f'{chr(96 + sid)}{i:02d}' for i in range(n)], 'mode': 'pickle'}


def enum_structural():
    """Parameter sweeps of single index-translating stages over LONGER sources than the chains use: intersperse
    length pairs / triples (ties of the position fractions), batch sizes, slice bounds and steps, concatenations, tiles."""
    import itertools
    for kind in ('list', 'dict'):
        for n1 in range(1, 25):
            for n2 in range(1, 25):
                yield ('intersperse2',), {'op': 'intersperse', 'how': 'method', 'ins': [_src(kind, 1, n1),
                                                                                        _src(kind, 2, n2)]}
        for n1, n2, n3 in itertools.product(range(1, 7), repeat=3):
            yield ('intersperse3',), {'op': 'intersperse', 'how': 'function',
                                      'ins': [_src(kind, 1, n1), _src(kind, 2, n2), _src(kind, 3, n3)]}
        for n in range(0, 21):
            for bs in range(1, 8):
                for drop in (False, True):
                    yield ('batch',), {'op': 'batch', 'n': bs, 'drop_last': drop, 'in': _src(kind, 1, n)}
        for a, b, c in itertools.product(range(0, 5), repeat=3):
            yield ('concat3',), {'op': 'concat', 'how': 'function', 'ins': [_src(kind, 1, a), _src(kind, 2, b),
                                                                            _src(kind, 3, c)]}
        # many parts (a walk over the parts vs. any bisecting shortcut) and the same object as several parts
        for k in (8, 9, 10, 13, 17):
            for shift in (0, 1, 2):
                yield ('concat_many',), {'op': 'concat', 'how': 'function',
                                         'ins': [_src(kind, i + 1, (i * 3 + shift) % 4) for i in range(k)]}
        for a, b in itertools.product(range(0, 4), repeat=2):
            A, B_ = _src(kind, 1, a), _src(kind, 2, b)
            for ins in ([A, B_, A], [A, A], [A, B_, A, B_], [B_, A, A]):
                yield ('concat_alias',), {'op': 'concat', 'how': 'method', 'share': True, 'ins': ins}
        for n in (1, 2, 3):
            for r in (8, 9, 16, 17):
                yield ('tile_many',), {'op': 'tile', 'r': r, 'in': _src(kind, 1, n)}
        # n-ary combinators called with a single dataset (ds.zip(), lazy_dataset.concatenate(ds)): still a zip of one
        for n in (0, 1, 3):
            for op in ('zip', 'concat', 'intersperse'):
                if op == 'intersperse' and n == 0:
                    continue
                for how in ('method', 'function'):
                    yield ('nary_single',), {'op': op, 'how': how, 'ins': [_src(kind, 1, n)]}
        # a lazy cache directly below batch(b), read BY INDEX from above (the batch probes its input beyond the end)
        for n in range(0, 8):
            for bs in (1, 2, 3, 4):
                cb = {'op': 'batch', 'n': bs, 'drop_last': False, 'in': {'op': 'cache', 'lazy': True, 'in': _src(kind, 1, n)}}
                yield ('cache_batch_rev',), {'op': 'slice', 'form': {'k': 'slice', 'a': None, 'b': None, 'c': -1}, 'in': cb}
                yield ('cache_batch_shuffle',), {'op': 'shuffle_once', 'seed': n, 'in': cb}
                yield ('cache_batch_prefetch',), {'op': 'prefetch', 'workers': 2, 'buffer': 2, 'catch': False, 'in': cb}
        # a deep pipeline (a training script adds stage after stage): 60 stages over a small source
        for n in (0, 3):
            node = _src(kind, 1, n)
            for d in range(60):
                node = [{'op': 'map', 'fn': d % 4, 'in': node},
                        {'op': 'slice', 'form': {'k': 'slice', 'a': None, 'b': None, 'c': -1}, 'in': node},
                        {'op': 'copy', 'freeze': False, 'in': node},
                        {'op': 'cache', 'lazy': True, 'in': node}][d % 4]
            yield ('deep_chain',), node
        bounds = [None] + list(range(-6, 7))
        for a in bounds:
            for b in bounds:
                for c in (None, 1, -1, 2, -2, 3, -3):
                    yield ('slice',), {'op': 'slice', 'form': {'k': 'slice', 'a': a, 'b': b, 'c': c},
                                       'in': _src(kind, 1, 5)}
        # every index list of length 1..4 over a 4-element source (selections that keep their end points but are not
        # a range, repeats, reversals ...), as list and as int64 array
        import itertools
        for ln in (1, 2, 3, 4):
            for idx in itertools.product(range(4), repeat=ln):
                yield ('ilist_all',), {'op': 'slice', 'form': {'k': 'ilist', 'idx': list(idx),
                                                               'as': 'list' if sum(idx) % 2 else 'np64'},
                                       'in': _src(kind, 1, 4)}
        if kind == 'list':
            yield ('intersperse_long',), {'op': 'intersperse', 'how': 'method',
                                          'ins': [_src(kind, 1, 33000), _src(kind, 2, 3)]}
        # long sources: index tables / arithmetic that only break beyond 255 (or at odd sizes)
        for n in (256, 300):
            big = _src(kind, 1, n)
            rev = {'op': 'slice', 'form': {'k': 'slice', 'a': None, 'b': None, 'c': -1}, 'in': big}
            yield ('long_rev_batch',), {'op': 'batch', 'n': 4, 'drop_last': False, 'in': rev}
            yield ('long_shuffle_batch',), {'op': 'batch', 'n': 7, 'drop_last': True,
                                            'in': {'op': 'shuffle_once', 'seed': 1, 'in': big}}
            yield ('long_shard_batch',), {'op': 'batch', 'n': 5, 'drop_last': False,
                                          'in': {'op': 'shard', 'k': 3, 'i': 1, 'via': 'shard', 'in': big}}
            yield ('long_sort',), {'op': 'sort', 'key': 3, 'reverse': True, 'sort_fn': None, 'in': big}
            yield ('long_concat_slice',), {'op': 'slice', 'form': {'k': 'slice', 'a': 3, 'b': -3, 'c': 2},
                                           'in': {'op': 'concat', 'how': 'method', 'ins': [big, _src(kind, 2, 40)]}}
        for n in range(0, 5):
            for r in range(1, 5):
                yield ('tile',), {'op': 'tile', 'r': r, 'in': _src(kind, 1, n)}
                for sd in (0, 1, 2):
                    yield ('tile_shuffle',), {'op': 'tile', 'r': r, 'shuffle': True, 'np_seed': sd,
                                              'in': _src(kind, 1, n)}
