"""Shared runner infrastructure: environment, evidence, known findings, Hypothesis driver, replays.

Everything that is random goes through Hypothesis seeded with VERIF_SEED; nothing here reads a clock for a verdict.
"""
import collections
import hashlib
import json
import os
import sys
import time
import traceback
from pathlib import Path

VERIF = Path(__file__).resolve().parent.parent
REPO = Path(os.environ.get('VERIF_REPO', '/repo')).resolve()
# scratch runs against seeded changes redirect evidence / replays so that they never touch the committed ones
OUT = Path(os.environ.get('VERIF_OUT', str(VERIF))).resolve()

EXIT_OK, EXIT_VIOLATION, EXIT_HARNESS = 0, 1, 2

REQUIRED_ENV = {
    'PYTHONHASHSEED': '0',
    'OMP_NUM_THREADS': '1',
    'MKL_NUM_THREADS': '1',
}


def normalise_env_or_reexec():
    """The checks need a fixed hash seed and the two env vars `ensure_single_thread_numeric` demands."""
    missing = {k: v for k, v in REQUIRED_ENV.items() if os.environ.get(k) != v}
    if missing:
        env = dict(os.environ)
        env.update(REQUIRED_ENV)
        env['PYTHONDONTWRITEBYTECODE'] = '1'
        os.execve(sys.executable, [sys.executable, '-m', 'vlib.run'] + sys.argv[1:], env)


def use_repo():
    """Put the tree under test first on sys.path and refuse to run against anything else."""
    sys.path.insert(0, str(REPO))
    import lazy_dataset
    got = Path(lazy_dataset.__file__).resolve()
    if REPO not in got.parents:
        print(f'HARNESS-ERROR: lazy_dataset imported from {got}, expected below {REPO}')
        sys.exit(EXIT_HARNESS)
    return lazy_dataset


def seed():
    return int(os.environ.get('VERIF_SEED', '1') or '1')


def canon(obj):
    return json.dumps(obj, sort_keys=True, default=repr, separators=(',', ':'))


def h(obj):
    return hashlib.sha1(canon(obj).encode()).hexdigest()[:16]


class Violation(Exception):
    """Raised by an oracle. `sig` is the bucket (sub-oracle + where), `detail` is human readable."""

    def __init__(self, sig, detail=''):
        super().__init__(f'{sig}: {detail}')
        self.sig = sig
        self.detail = detail


class Inconclusive(Exception):
    pass


# ---------------------------------------------------------------------------------------------------------------------
# known findings


class KnownFindings:
    """Read-only view of /verif/known_findings.txt.

    open: property=<id> sig=<signature-prefix> <text>   -> suppresses exactly violations whose signature starts with it
    fixed: property=<id> <commit> <text>                -> suppresses nothing
    """

    def __init__(self, pid):
        self.pid = pid
        self.open = []
        path = VERIF / 'known_findings.txt'
        if path.exists():
            for line in path.read_text().splitlines():
                line = line.strip()
                if not line.startswith('open:'):
                    continue
                fields = line[len('open:'):].split()
                kv = dict(f.split('=', 1) for f in fields[:2] if '=' in f)
                if kv.get('property') == pid and 'sig' in kv:
                    self.open.append((kv['sig'], ' '.join(fields[2:])))
        self.hits = collections.Counter()

    def match(self, sig):
        for prefix, text in self.open:
            if sig.startswith(prefix):
                self.hits[prefix] += 1
                return prefix
        return None

    def report(self):
        for prefix, text in self.open:
            if self.hits[prefix]:
                print(f'KNOWN-FINDING: property={self.pid} sig={prefix} hits={self.hits[prefix]} {text}')


# ---------------------------------------------------------------------------------------------------------------------
# recorder / evidence


class Recorder:
    MAX_SAMPLES = 6

    def __init__(self, pid):
        self.pid = pid
        self.evaluations = 0
        self.nontrivial = set()
        self.samples = []
        self.largest = None
        self.hist = collections.Counter()
        self.known_hits = collections.Counter()
        self.extra = {}

    def case(self, case, nontrivial, classes=(), size=0):
        """Count one executed case. `case` must be JSON-able; `classes` feed the histogram."""
        self.evaluations += 1
        if self.evaluations % 200 == 0:
            import gc
            gc.collect()  # a safe point (main thread, between two cases); automatic collection is disabled
        for c in classes:
            self.hist[c] += 1
        if nontrivial:
            k = h(case)
            if k not in self.nontrivial:
                self.nontrivial.add(k)
                if len(self.samples) < self.MAX_SAMPLES:
                    self.samples.append(case)
                if self.largest is None or size > self.largest[0]:
                    self.largest = (size, case)

    def dump(self):
        return {
            'evaluations': self.evaluations,
            'nontrivial': sorted(self.nontrivial),
            'samples': self.samples,
            'largest': self.largest,
            'hist': dict(self.hist),
            'known_hits': dict(self.known_hits),
            'extra': self.extra,
        }

    def merge(self, d):
        self.evaluations += d['evaluations']
        self.nontrivial.update(d['nontrivial'])
        for s in d['samples']:
            if len(self.samples) < self.MAX_SAMPLES and s not in self.samples:
                self.samples.append(s)
        if d['largest'] is not None and (self.largest is None or d['largest'][0] > self.largest[0]):
            self.largest = tuple(d['largest'])
        self.hist.update(d['hist'])
        self.known_hits.update(d['known_hits'])
        for k, v in d['extra'].items():
            if isinstance(v, (int, float)) and isinstance(self.extra.get(k, 0), (int, float)):
                self.extra[k] = self.extra.get(k, 0) + v
            else:
                self.extra.setdefault(k, v)


def write_evidence(pid, tier, rec, rule, assumptions, wall_s, violations, level='exploration', exhaustive=None,
                   extra=None):
    samples = list(rec.samples)
    if rec.largest is not None and rec.largest[1] not in samples:
        samples.append(rec.largest[1])
    cov = {
        'evaluations': rec.evaluations,
        'distinct_nontrivial': len(rec.nontrivial),
        'rule': rule,
        'samples': samples,
        'class_histogram': dict(sorted(rec.hist.items())),
        'known_hits': dict(rec.known_hits),
    }
    if exhaustive is not None:
        cov['exhaustive'] = exhaustive
    cov.update(rec.extra)
    if extra:
        cov.update(extra)
    ev = {
        'property_id': pid,
        'tier': tier,
        'seed': seed(),
        'level': level,
        'coverage': cov,
        'assumptions': assumptions,
        'wall_s': round(wall_s, 2),
        'violations': violations,
    }
    out = OUT / 'evidence'
    out.mkdir(parents=True, exist_ok=True)
    (out / f'{pid}.json').write_text(json.dumps(ev, indent=1, default=repr) + '\n')
    return ev


def save_replay(pid, case, sig, detail):
    d = OUT / 'replays' / pid
    d.mkdir(parents=True, exist_ok=True)
    payload = {'property': pid, 'sig': sig, 'detail': detail[:4000], 'case': case}
    path = d / f'{h(case)}.json'
    path.write_text(json.dumps(payload, indent=1, default=repr) + '\n')
    return path


# ---------------------------------------------------------------------------------------------------------------------
# Hypothesis driver


class Outcome:
    def __init__(self):
        self.violation = None  # (case, sig, detail)
        self.harness_error = None  # traceback text


def drive(check_case, strategy, n_examples, rec, known, hseed, shrink=True, stateful_steps=None):
    """Run `check_case(case)` over `n_examples` draws of `strategy`.

    check_case raises Violation for a property breach; anything else that escapes is a harness error.
    Known (open) findings are counted and skipped so the search continues past them.
    Returns an Outcome; the violation it carries is the shrunk one (Hypothesis replays the minimal case last).
    """
    import hypothesis
    from hypothesis import HealthCheck, Phase, given, settings

    out = Outcome()
    last = {}
    # The cyclic garbage collector may run finalisers (generator clean-up that joins threads) at any allocation in
    # any thread - observed to dead-lock CPython 3.12 inside Thread._bootstrap_inner. Collect only at safe points:
    # between two cases, in the main thread, when no library thread is running.
    import gc
    gc.disable()
    counter = [0]

    def wrapped(case):
        counter[0] += 1
        if counter[0] % 25 == 0:
            gc.collect()
        try:
            check_case(case)
        except Violation as v:
            if known is not None and known.match(v.sig):
                rec.known_hits[v.sig.split('|')[0]] += 1
                return
            last['v'] = (case, v.sig, v.detail)
            raise
        except Inconclusive:
            raise
        except Exception:
            last['e'] = (case, traceback.format_exc())
            raise

    phases = [Phase.explicit, Phase.generate] + ([Phase.shrink] if shrink else [])
    st = settings(max_examples=n_examples, database=None, deadline=None, derandomize=False,
                  report_multiple_bugs=False, phases=phases,
                  suppress_health_check=[HealthCheck.too_slow, HealthCheck.data_too_large],
                  print_blob=False)
    test = hypothesis.seed(hseed)(settings(st)(given(strategy)(wrapped)))
    try:
        test()
    except Violation:
        out.violation = last['v']
    except Inconclusive:
        raise
    except BaseException as e:  # hypothesis errors (health checks, flaky) and harness bugs
        if 'v' in last and isinstance(e, Exception) and 'Flaky' in type(e).__name__:
            out.violation = last['v']
        else:
            out.harness_error = last.get('e', (None, traceback.format_exc()))
    return out


def finish(pid, tier, rec, known, outcomes, rule, assumptions, t0, level='exploration', exhaustive=None, extra=None,
           min_nontrivial=2):
    """Common tail of every check: evidence, KNOWN-FINDING / VIOLATION lines, exit code."""
    violations = [o.violation for o in outcomes if o.violation]
    errors = [o.harness_error for o in outcomes if o.harness_error]
    write_evidence(pid, tier, rec, rule, assumptions, time.time() - t0, len(violations), level=level,
                   exhaustive=exhaustive, extra=extra)
    if known is not None:
        known.report()
    print(f'[{pid}] tier={tier} seed={seed()} evaluations={rec.evaluations} '
          f'distinct_nontrivial={len(rec.nontrivial)} wall={time.time() - t0:.1f}s')
    if violations:
        seen = set()
        for case, sig, detail in violations:
            if sig in seen:
                continue
            seen.add(sig)
            path = save_replay(pid, case, sig, detail)
            print(f'  signature: {sig}')
            print('  ' + detail[:1500].replace('\n', '\n  '))
            print(f'VIOLATION property={pid} replay={path}')
        return EXIT_VIOLATION
    if errors:
        for case, tb in errors:
            print('HARNESS-ERROR (not a verdict):')
            print(tb)
            if case is not None:
                print('case:', canon(case)[:2000])
        return EXIT_HARNESS
    if len(rec.nontrivial) < min_nontrivial:
        print(f'HARNESS-ERROR: only {len(rec.nontrivial)} non-trivial cases, generator is vacuous')
        return EXIT_HARNESS
    return EXIT_OK
