"""C11 - the disk cache is reused exactly and cleared exactly when asked (lifecycle histories + kill points)."""
import gc
import itertools
import os
import shutil
import signal
import tempfile
import time
import types
from pathlib import Path

import numpy as np
from hypothesis import strategies as st

from .. import progcheck
from ..common import Inconclusive, Outcome, Violation, drive, seed

PID = 'C11'
LEVEL = 'fault_enumeration'
RULE = ('(a) Hypothesis lifecycle histories over ONE directory: open(reuse, clear) [all four combinations, optional '
        'foreign file in the directory], access by index / negative / numpy index / key / slice view / iteration / '
        'prefetch, copy(), release(handle) = del + gc.collect(), reopen, the wall clock jumping ahead by days or months, '
        'a store whose library-level size limit is reached after a few examples, a relative directory name with the '
        'process changing its working directory, an open refused because the dataset is not '
        'indexable; a counting upstream makes every '
        'recomputation visible. Model: stored values per position, live handles of the one open wrapper group, '
        'directory state. Oracle: every value is the pipeline value and equals what was stored first; stored '
        'positions are served with zero upstream calls across instances; non-empty directory + reuse=False raises '
        'RuntimeError and leaves the directory intact; after the last sharer is released the directory exists iff '
        'clear=False. (b) kill points: a forked child fills the cache (payloads below and above the 32 KiB inline '
        'limit) and acknowledges every store on a pipe; the parent SIGKILLs it after the j-th acknowledgement for '
        'EVERY j (and after drawn microsecond delays), reopens with reuse=True: every acknowledged index is served '
        'without recomputation, every served value is the right one (unpickling errors count as corruption). '
        'Non-trivial: a reopen after a partial fill, a copy outliving the original, a refused open, or a kill with '
        '>= 1 acknowledged store; distinct by case JSON.')
ASSUMPTIONS = [
    'crash = death of the writing process (SIGKILL); power loss / torn sectors cannot be injected from a test process',
    'one wrapper group (a dataset and its copies) is open on the directory at a time, which keeps the model exact',
    'shutil.disk_usage is patched to "plenty" so the 1 GB free-space guard cannot interfere',
]
N = {'quick': 250, 'thorough': 900}
PATHS = ['idx', 'neg', 'np', 'key', 'view', 'iter', 'prefetch2', 'items', 'intsub']


class Position(int):
    """An int subclass (what an IntEnum member or a bool is): the same position as the plain int."""



def plan(tier):
    return {'shards': 4 if tier == 'quick' else 16}


def patch_disk():
    shutil.disk_usage = lambda p: types.SimpleNamespace(total=10 ** 13, used=0, free=10 ** 13)


# ---------------------------------------------------------------------------------------------------------------------
# (a) lifecycle histories


def lifecycle(case):
    import lazy_dataset
    n, cont = case['n'], case['container']
    root = tempfile.mkdtemp(prefix='verif_c11_')
    d = Path(root) / ('cache[v2]' if case.get('odd_name') else 'cache')
    desc = f'{case}'
    spelled = str(d)
    if case.get('spelled') == 'envvar':
        os.environ['VERIF_C11_ROOT'] = root
        spelled = '$VERIF_C11_ROOT/' + d.name
    elif case.get('spelled') == 'path':
        spelled = d
    orig_cwd = os.getcwd()
    elsewhere = Path(root) / 'elsewhere'
    elsewhere.mkdir()
    if case.get('spelled') == 'relative':
        # a relative directory name; the process changes its working directory later on ('chdir' steps)
        os.chdir(root)
        spelled = d.name if len(case['steps']) % 2 == 0 else Path(d.name)  # as str or as pathlib.Path
    calls = {}
    counter = itertools.count(1)

    none_pos = case.get('none_pos')
    pad = case.get('pad', 0)
    # the environment: how large the disk cache library believes its store may grow before it starts culling (the
    # library default is 1 GiB - a scaled-down world shows the same behaviour after kilobytes), and the wall clock
    import diskcache.core as _dc
    saved_limit = _dc.DEFAULT_SETTINGS['size_limit']
    if case.get('size_limit'):
        _dc.DEFAULT_SETTINGS['size_limit'] = case['size_limit']
    real_time = time.time
    clock = {'offset': 0.0}

    def counting(x):
        c = next(counter)
        calls.setdefault(x, []).append(c)
        if x == none_pos:
            return None  # None is a legitimate example; recomputation shows in the call counter
        if pad:
            return (x, c, 'p' * pad)
        return (x, c)

    keys = ['k%d' % i for i in range(n)]
    ds = view = v = None
    stored = {}  # position -> value kept on disk
    handles = []  # live datasets of the one open group
    group = None  # {'clear': bool}
    dir_used = False
    events = set()
    try:
        if case.get('foreign'):
            d.mkdir()
            (d / ('.gitkeep' if case['foreign'] == 'dotfile' else 'foreign.txt')).write_text('x')
            dir_used = True

        def upstream():
            src = lazy_dataset.new(dict(zip(keys, range(n)))) if cont == 'dict' else lazy_dataset.new(list(range(n)))
            return src.map(counting)

        def observe(p, v, path):
            if p == none_pos:
                if v is not None:
                    raise Violation(f'not-a-pipeline-value|{path}', f'{desc}\nposition {p} via {path}: {v!r}')
                stored.setdefault(p, None)
                return
            if pad and isinstance(v, tuple) and len(v) == 3 and v[2] == 'p' * pad:
                v = v[:2]
            if not (isinstance(v, tuple) and len(v) == 2 and v[0] == p and v[1] in calls.get(p, [])):
                raise Violation(f'not-a-pipeline-value|{path}', f'{desc}\nposition {p} via {path}: {v!r:.300}')
            if p in stored:
                if v != stored[p]:
                    raise Violation(f'stored-value-not-served|{path}',
                                    f'{desc}\nposition {p} via {path} returned {v}; stored earlier: {stored[p]} '
                                    f'(upstream calls {calls.get(p)})')
            else:
                stored[p] = v

        for si, step in enumerate(case['steps']):
            kind = step[0]
            if kind in ('open', 'open_bad') and case.get('spelled') == 'relative':
                os.chdir(root)  # a relative name means THE directory of this history only when resolved from here
            if kind == 'open':
                if handles:
                    continue
                _, reuse, clear = step
                nonempty = d.is_dir() and any(d.iterdir())
                try:
                    ds = upstream().diskcache(spelled, reuse=reuse, clear=clear)
                except RuntimeError as e:
                    if nonempty and not reuse:
                        events.add('refused')
                        gc.collect()
                        if not d.is_dir() or not any(d.iterdir()):
                            raise Violation('refused-open-damaged-directory',
                                            f'{desc}\nstep {si}: the refused open removed / emptied the directory')
                        continue
                    raise Violation('open-raised', f'{desc}\nstep {si}: {e}')
                if nonempty and not reuse:
                    raise Violation('non-empty-directory-accepted',
                                    f'{desc}\nstep {si}: reuse=False on a non-empty directory did not raise')
                if stored:
                    events.add('reopen-after-fill')
                handles.append(ds)
                group = {'clear': clear}
                dir_used = True
            elif kind == 'open_bad':
                # an open that the library refuses for another reason (a dataset that is not indexable): a refused
                # open is not "asked to clear" - whatever is stored in the directory must survive it
                if handles:
                    continue
                _, reuse, clear = step
                before = sorted(str(f.relative_to(d)) for f in d.rglob('*')) if d.is_dir() else None
                bad = None
                refused = False
                try:
                    bad = upstream().filter(lambda x: True).diskcache(spelled, reuse=reuse, clear=clear)
                except Exception:
                    refused = True
                if refused:
                    events.add('refused')
                    gc.collect()  # (outside the handler: the traceback may keep half-built objects alive)
                    after = sorted(str(f.relative_to(d)) for f in d.rglob('*')) if d.is_dir() else None
                    if before is not None and (after is None or not set(before) <= set(after)):
                        raise Violation('refused-open-damaged-directory',
                                        f'{desc}\nstep {si}: the open was refused (dataset not indexable), yet the '
                                        f'directory changed from {before} to {after}')
                    continue
                # accepted (not the case today): it is an ordinary sharer then, released at once
                del bad
                gc.collect()
                if clear:
                    stored.clear()
            elif kind == 'chdir':
                os.chdir(str(elsewhere) if os.getcwd() != str(elsewhere) else root)
                events.add('chdir')
            elif kind == 'clock':
                # time passes (days): stored examples do not age
                clock['offset'] += step[1] * 86400.0
                time.time = lambda: real_time() + clock['offset']
                events.add('clock')
            elif kind == 'copy':
                if handles:
                    handles.append(handles[step[1] % len(handles)].copy())
            elif kind == 'release':
                ds = view = v = None  # no stray references from earlier steps
                if not handles:
                    continue
                i = step[1] % len(handles)
                if i == 0 and len(handles) > 1:
                    events.add('copy-outlives-original')
                h = handles.pop(i)
                del h
                gc.collect()
                if handles:
                    if not d.is_dir():
                        raise Violation('directory-removed-while-shared',
                                        f'{desc}\nstep {si}: directory gone although {len(handles)} dataset(s) still '
                                        f'share the cache')
                else:
                    if group['clear']:
                        if d.exists():
                            raise Violation('directory-not-cleared', f'{desc}\nstep {si}: clear=True but the '
                                                                     f'directory still exists after the last release')
                        stored.clear()
                    else:
                        if not d.is_dir():
                            raise Violation('directory-removed-despite-clear-false', f'{desc}\nstep {si}')
                    group = None
            elif kind == 'acc':
                if not handles:
                    continue
                _, path, pos, tgt = step
                ds = handles[tgt % len(handles)]
                p = pos % n
                before = {k: len(v) for k, v in calls.items()}
                known = set(stored)
                try:
                    if path == 'idx':
                        observe(p, ds[p], path)
                        touched = [p]
                    elif path == 'neg':
                        observe(p, ds[p - n], path)
                        touched = [p]
                    elif path == 'np':
                        observe(p, ds[np.int64(p)], path)
                        touched = [p]
                    elif path == 'key':
                        observe(p, ds[keys[p]] if cont == 'dict' else ds[p], path)
                        touched = [p]
                    elif path == 'view':
                        view = ds[::-1]
                        observe(n - 1 - p, view[p], path)
                        touched = [n - 1 - p]
                    elif path == 'intsub':
                        observe(p, ds[Position(p)] if p > 1 else ds[bool(p)], path)
                        touched = [p]
                    elif path == 'items':
                        if cont == 'dict':
                            for i, (k, v) in enumerate(ds.items()):
                                if k != keys[i]:
                                    raise Violation('items-key', f'{desc}\nitems() pairs position {i} with {k!r}')
                                observe(i, v, path)
                        else:
                            for i, v in enumerate(ds):
                                observe(i, v, path)
                        touched = list(range(n))
                    elif path == 'iter':
                        for i, v in enumerate(ds):
                            observe(i, v, path)
                        touched = list(range(n))
                    else:
                        for i, v in enumerate(ds.prefetch(2, 2)):
                            observe(i, v, path)
                        touched = list(range(n))
                except Violation:
                    raise
                except Exception as e:
                    raise Violation(f'access-raised|{path}', f'{desc}\nstep {si} raised {type(e).__name__}: {e}')
                for q in touched:
                    new_calls = len(calls.get(q, [])) - before.get(q, 0)
                    if q in known and new_calls:
                        raise Violation(f'stored-example-recomputed|{path}',
                                        f'{desc}\nstep {si}: position {q} was already stored but upstream ran '
                                        f'{new_calls} more time(s)')
                    if new_calls > 1:
                        raise Violation(f'computed-twice|{path}', f'{desc}\nstep {si}: position {q}: {new_calls} calls')
        final_clear = group['clear'] if group else None
        ds = view = v = None
        handles.clear()
        gc.collect()
        if final_clear is True and d.exists():
            raise Violation('directory-not-cleared', f'{desc}\nat the end: clear=True but the directory still exists')
        if final_clear is False and not d.is_dir():
            raise Violation('directory-removed-despite-clear-false', f'{desc}\nat the end')
        return events
    finally:
        os.chdir(orig_cwd)
        time.time = real_time
        _dc.DEFAULT_SETTINGS['size_limit'] = saved_limit
        handles.clear()
        gc.collect()
        shutil.rmtree(root, ignore_errors=True)


@st.composite
def st_lifecycle(draw):
    """1-3 sessions over the same directory: open, accesses / copies, releases (possibly leaving handles to the end)."""
    n = draw(st.integers(1, 4))
    steps = []
    for s in range(draw(st.integers(1, 3))):
        reuse = draw(st.booleans()) if s == 0 else draw(st.sampled_from([True, True, False]))
        steps.append(['open', reuse, draw(st.booleans())])
        for _ in range(draw(st.integers(0, 6))):
            r = draw(st.integers(0, 7))
            if r == 0:
                steps.append(['copy', draw(st.integers(0, 3))])
            elif r == 1:
                steps.append(['release', draw(st.integers(0, 3))])
            elif r == 2:
                steps.append(['open', draw(st.booleans()), draw(st.booleans())])  # ignored while a group is open
            elif r == 3 and draw(st.booleans()):
                steps.append(['clock', draw(st.sampled_from([1, 40, 100, 400]))] if draw(st.booleans()) else ['chdir'])
            else:
                steps.append(['acc', draw(st.sampled_from(PATHS)), draw(st.integers(0, 7)), draw(st.integers(0, 3))])
        for _ in range(draw(st.integers(0, 3))):
            steps.append(['release', draw(st.integers(0, 3))])
        if draw(st.booleans()):
            steps += [['release', 0]] * 4  # make sure the session is closed before the next open
            if draw(st.integers(0, 2)) == 0:
                steps.append(['open_bad', draw(st.booleans()), draw(st.booleans())])
    case = {'mode': 'lifecycle', 'n': n, 'container': draw(st.sampled_from(['list', 'dict'])),
            'foreign': draw(st.sampled_from([False, False, False, False, True, 'dotfile'])), 'steps': steps}
    if draw(st.integers(0, 4)) == 0:
        case['odd_name'] = True
    if draw(st.integers(0, 3)) == 0:
        case['none_pos'] = draw(st.integers(0, n - 1))
    if draw(st.integers(0, 3)) == 0:
        # a world in which the store is "full" after a few examples (below and above the 32 KiB inline limit)
        case['pad'] = draw(st.sampled_from([9000, 40000]))
        case['size_limit'] = 16384
    sp = draw(st.sampled_from(['str', 'str', 'path', 'envvar', 'relative', 'relative']))
    if sp != 'str':
        case['spelled'] = sp
    return case


# ---------------------------------------------------------------------------------------------------------------------
# (b) kill points


def payload(i, size):
    return {'index': i, 'blob': bytes([i % 251]) * size}


def kill_case(case):
    import lazy_dataset
    n, sizes, j, delay_us = case['n'], case['sizes'], case['kill_after'], case.get('delay_us', 0)
    root = tempfile.mkdtemp(prefix='verif_c11k_')
    d = str(Path(root) / 'cache')
    desc = f'{case}'
    try:
        r, w = os.pipe()
        pid = os.fork()
        if pid == 0:  # child: fill the cache, acknowledge every store
            try:
                os.close(r)
                ds = lazy_dataset.new(list(range(n))).map(lambda i: payload(i, sizes[i])) \
                    .diskcache(d, reuse=True, clear=False)
                if case.get('fill') == 'iter':
                    for _ in ds:  # filling by iteration: every example is stored when it is yielded
                        os.write(w, b'a')
                elif case.get('fill') == 'items_prefetch':
                    for _ in ds.prefetch(1, 1):
                        os.write(w, b'a')
                else:
                    for i in range(n):
                        ds[i]
                        os.write(w, b'a')
                os.write(w, b'z')
                time.sleep(30)
            finally:
                os._exit(0)
        os.close(w)
        acked = 0
        deadline = time.time() + 60
        while acked < j:
            b = os.read(r, 1)
            if not b:
                break
            if b == b'a':
                acked += 1
            if time.time() > deadline:
                os.kill(pid, signal.SIGKILL)
                os.waitpid(pid, 0)
                raise Inconclusive('child too slow')
        if delay_us:
            t_end = time.perf_counter() + delay_us / 1e6
            while time.perf_counter() < t_end:
                pass
        os.kill(pid, signal.SIGKILL)
        os.waitpid(pid, 0)
        # acknowledgements that arrived until the kill (stores that completed before the process died)
        os.set_blocking(r, False)
        try:
            while True:
                b = os.read(r, 64)
                if not b:
                    break
                acked += b.count(b'a')
        except BlockingIOError:
            pass
        os.close(r)
        calls = []

        def f(i):
            calls.append(i)
            return payload(i, sizes[i])

        try:
            ds2 = lazy_dataset.new(list(range(n))).map(f).diskcache(d, reuse=True, clear=True)
        except Exception as e:
            raise Violation('reopen-after-kill-raised', f'{desc}\n{type(e).__name__}: {e}')
        for i in range(n):
            try:
                v = ds2[i]
            except Exception as e:
                raise Violation('corrupt-after-kill', f'{desc}\nreading index {i} raised {type(e).__name__}: {e}')
            if v != payload(i, sizes[i]):
                raise Violation('misplaced-or-corrupt-after-kill', f'{desc}\nindex {i} returned index '
                                                                   f'{v.get("index") if isinstance(v, dict) else v}')
            if i < acked and i in calls:
                raise Violation('acknowledged-store-lost',
                                f'{desc}\nindex {i} was stored (acknowledged) before the kill but was recomputed')
        del ds2
        gc.collect()
        if os.path.exists(d):
            raise Violation('directory-not-cleared', f'{desc}\nclear=True after the reopen left the directory')
        return acked
    finally:
        shutil.rmtree(root, ignore_errors=True)


def default_dir_case(case):
    """diskcache() without a directory: a fresh directory is chosen; clear decides whether it survives the release."""
    import re
    import lazy_dataset
    clear = case['clear']
    ds = lazy_dataset.new([1, 2, 3]).map(lambda x: x + 1).diskcache(clear=clear)
    got = list(ds)
    m = re.search(r'cache_dir=(.*), reuse=', str(ds))
    if got != [2, 3, 4] or not m:
        raise Violation('default-dir-values', f'{case}: {got} {str(ds)!r}')
    path = m.group(1)
    try:
        if not os.path.isdir(path):
            raise Violation('default-dir-missing', f'{case}: {path} does not exist while the dataset is alive')
        del ds
        gc.collect()
        if clear and os.path.exists(path):
            raise Violation('directory-not-cleared', f'{case}: clear=True but {path} still exists after the release')
        if not clear and not os.path.isdir(path):
            raise Violation('directory-removed-despite-clear-false',
                            f'{case}: diskcache(clear=False) without a directory: {path} was removed on release')
    finally:
        shutil.rmtree(path, ignore_errors=True)


def replay(case):
    progcheck.setup_process()
    patch_disk()
    if case['mode'] == 'default_dir':
        return default_dir_case(case)
    if case['mode'] == 'kill':
        kill_case(case)
    else:
        lifecycle(case)


def run_shard(tier, idx, nshards, rec, known):
    progcheck.setup_process()
    patch_disk()
    out = Outcome()
    # (b) every kill point j for two payload profiles; drawn delays in thorough
    profiles = [[100] * 5, [100, 40000, 100, 40000, 33000], [40000] * 4]
    delays = [0] if tier == 'quick' else [0, 50, 500, 3000]
    k = 0
    for sizes, fill in [(p, f) for p in profiles for f in ('index', 'iter')] + [(profiles[1], 'items_prefetch')]:
        n = len(sizes)
        for j in range(0, n + 1):
            for dl in delays:
                k += 1
                if k % nshards != idx:
                    continue
                case = {'mode': 'kill', 'n': n, 'sizes': sizes, 'kill_after': j, 'delay_us': dl, 'fill': fill}
                try:
                    acked = kill_case(case)
                except Violation as v:
                    if known.match(v.sig):
                        rec.known_hits[v.sig] += 1
                        continue
                    out.violation = (case, v.sig, v.detail)
                    return [out]
                rec.case(dict(case, acknowledged=acked), acked >= 1, ['kill', f'kill-after:{j}', 'fill:' + fill,
                                                                      'large-payload' if max(sizes) > 32768 else 'small'],
                         size=n)

    if idx == 0:
        for clear in (True, False):
            case = {'mode': 'default_dir', 'clear': clear}
            try:
                default_dir_case(case)
            except Violation as v:
                if not known.match(v.sig):
                    out.violation = (case, v.sig, v.detail)
                    return [out]
            rec.case(case, True, ['default-dir'])

    def one(case):
        events = lifecycle(case)
        cls = ['lifecycle'] + sorted(events) + sorted({'path:' + s[1] for s in case['steps'] if s[0] == 'acc'})
        cls += sorted({f'open:reuse={s[1]},clear={s[2]}' for s in case['steps'] if s[0] == 'open'})
        rec.case(case, bool(events), cls, size=len(case['steps']))
    return [out, drive(one, st_lifecycle(), N[tier], rec, known, seed() * 1000 + idx)]
