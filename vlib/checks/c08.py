"""C08 - evaluation is demand-driven: nothing runs early, nothing runs twice."""
import itertools

from hypothesis import strategies as st

from .. import build as B
from .. import gen, observe, progcheck, progs
from ..common import Violation, drive, seed
from ..lazyref import LazyRef
from ..refmodel import ev

PID = 'C08'
RULE = ('Hypothesis: programs from the lazy alphabet (map, lazy filter, every slice form, concatenate, intersperse, '
        'zip, key_zip, batch, unbatch, batch_map, items, tile, lazy cache, catch, copy, local shuffle, 1-worker '
        'prefetch) over logging raw sources, with an instrumented function at every stage; observation after '
        'construction, after the first k results of an iteration (k drawn in 0..len+1), after ds[i] and after '
        'ds[key], and after refused accesses (absent key, index outside the range). Oracle: construction logs nothing; per stage (and per source) the sequence of arguments seen is a '
        'subsequence of what a generator-based lazy reference interpreter evaluates for the same demand (with the '
        'look-ahead the statement allows: one batch, the shuffle buffer, buffer_size+2 for prefetch), which bounds '
        'multiplicity and order. Plus dynamic bucket batching (C17 parameter space) with a counting sort_key and a counting '
        'stage below: each sees an example at most once, the stage below in source order. Plus a lazy apply stage below '
        'stacks of lazy stages: the apply function runs once per iteration, never at construction. Non-trivial: 0 < k < len, depth >= 2 and >= 2 instrumented stages, or an index/key '
        'access into a program of depth >= 3; distinct by case JSON.')
ASSUMPTIONS = [
    'only "subsequence of the reference demand" is required per stage: fewer evaluations are always fine and the '
    'cross-stage interleaving is not part of the statement',
    'stages above a buffer-local shuffle see examples in random order: for them only the number of evaluations is '
    'bounded',
    'the lazy reference does not model cache hits (it demands at least as much as a caching pipeline)',
    'a refused access (key that the selection does not contain, index outside the range) has no result and must '
    'evaluate nothing; asserted only where membership is structural: no stage that selects by value (filter, catch) '
    'and no drop_last batching, which reads the incomplete last batch before it refuses its index',
]
N = {'quick': 2500, 'thorough': 10000}
LAZY = {'map', 'filter_lazy', 'slice', 'batch', 'unbatch', 'items', 'tile', 'cache_lazy', 'catch', 'copy',
        'concat', 'intersperse', 'zip', 'key_zip', 'frag', 'batch_map', 'prefetch1', 'local_shuffle', 'parmap',
        'nonemap'}


def plan(tier):
    return {'shards': 4 if tier == 'quick' else 16}


def is_subsequence(small, big):
    it = iter(big)
    return all(any(x == y for y in it) for x in small)


def by_path(log):
    out = {}
    for path, kind, arg in log:
        out.setdefault(path, []).append(repr(arg))
    return out


def random_paths(node):
    return [p for p, n in progcheck.subnodes(node) if n['op'] == 'local_shuffle']


def compare(node, impl_log, ref_log, what):
    impl, ref = by_path(impl_log), by_path(ref_log)
    rnd = random_paths(node)
    nodes = dict(progcheck.subnodes(node))
    full_by_path = None
    if rnd:
        full = LazyRef()
        list(full.iter(node))
        full_by_path = by_path(full.log)
        data_dependent = any(n['op'] in ('filter', 'unbatch', 'frag', 'catch') for n in nodes.values())
    for path, seen in impl.items():
        want = ref.get(path, [])
        stage = nodes[path]['op'] if path in nodes else '?'
        if rnd:
            # with a random stage in the pipeline the demanded examples are not predictable: nothing may be
            # evaluated twice per pass or without being part of a full pass, and (when no stage above selects by
            # value) not more often than the demand of the same number of results
            allw = full_by_path.get(path, [])
            extra = [a for a in set(seen) if seen.count(a) > allw.count(a)]
            if extra and what == 'prefix':
                raise Violation(f'{what}-too-many-evaluations|{stage}',
                                f'stage {stage} at {path} saw {seen}; a full pass evaluates only {allw}')
            if what == 'prefix' and not data_dependent and len(seen) > len(want):
                raise Violation(f'{what}-too-many-evaluations|{stage}',
                                f'stage {stage} at {path} was evaluated {len(seen)} times, demand allows {len(want)}')
            if what != 'prefix' and not is_subsequence(seen, want):
                raise Violation(f'{what}-evaluated-without-demand|{stage}',
                                f'stage {stage} at {path} saw {seen}\nthe lazy reference evaluates only {want}')
            continue
        nd = nodes.get(path, {})
        if nd.get('op') == 'parmap' or (nd.get('op') == 'batch_map' and nd.get('workers')):
            # the stage's own function runs in worker threads: the log order across threads is not meaningful
            extra = [a for a in set(seen) if seen.count(a) > want.count(a)]
            if extra:
                raise Violation(f'{what}-evaluated-without-demand|{stage}',
                                f'parallel stage {stage} at {path} saw {sorted(seen)}\nthe lazy reference (with '
                                f'buffer_size+1 look-ahead) evaluates only {sorted(want)}')
            continue
        if not is_subsequence(seen, want):
            extra = [a for a in seen if seen.count(a) > want.count(a)]
            sig = 'evaluated-twice' if extra and all(a in want for a in extra) else 'evaluated-without-demand'
            raise Violation(f'{what}-{sig}|{stage}',
                            f'stage {stage} at {path} saw {seen}\nthe lazy reference evaluates only {want}')


def check_eager(case):
    """An eager operation (filter(lazy=False), sort, cache(lazy=False), groupby) on top of a lazy program: its
    construction evaluates what ONE full pass over the input evaluates - nothing twice - and reading the result
    afterwards evaluates only what the result is made of."""
    base, op = case['ast'], case['eager']
    desc = f'program: {progs.show(base)} then {op}'
    env = B.Env(raw_sources=True)
    ds = B.build(base, env)
    if env.log:
        raise Violation('construction-evaluates', f'{desc}\nconstruction alone evaluated {env.log[:6]}')
    try:
        if op == 'filter_eager':
            out = ds.filter(lambda x: progs.f_pred(2, 0, x), lazy=False)
        elif op == 'sort':
            out = ds.sort(lambda x: progs.f_key(3, x))
        elif op == 'cache_eager':
            out = ds.cache(lazy=False)
        else:
            out = ds.groupby(lambda x: progs.f_key(2, x))
    except Exception as e:
        raise Violation('eager-op-raised', f'{desc}\n{type(e).__name__}: {str(e)[:300]}')
    full = LazyRef()
    list(full.iter(base))
    want = by_path(full.log)
    seen = by_path(list(env.log))
    nodes = dict(progcheck.subnodes(base))
    for path, args in seen.items():
        allw = want.get(path, [])
        extra = [a for a in set(args) if args.count(a) > allw.count(a)]
        if extra:
            raise Violation(f'eager-evaluated-twice|{nodes[path]["op"] if path in nodes else "?"}',
                            f'{desc}\nstage at {path} saw {args}\none full pass evaluates {allw}')
    return len(env.log)


def check(case):
    if case.get('eager'):
        return check_eager(case)
    node = case['ast']
    desc = f'program: {progs.show(node)} mode={case["mode"]} arg={case.get("arg")}'
    env = B.Env(raw_sources=True)
    try:
        ds = B.build(node, env)
    except Exception as e:
        raise Violation('construction-raised', f'{desc}\n{observe.describe_exc(e)}')
    if env.log:
        raise Violation('construction-evaluates', f'{desc}\nconstruction alone evaluated {env.log[:6]}')
    # further lazy constructions on top (valid or refused - e.g. key_zip over a filtered dataset has no keys to
    # check and is refused): constructing, or refusing to construct, evaluates nothing either
    import lazy_dataset as _ld
    for what, attempt in (('items()', lambda: ds.items()), ('key_zip(self)', lambda: ds.key_zip(ds)),
                          ('key_zip(new)', lambda: _ld.key_zip(ds, _ld.new({'a': 1}))),
                          ('zip(self)', lambda: ds.zip(ds)), ('zip(new)', lambda: _ld.zip(_ld.new([1]), ds))):
        try:
            attempt()
        except observe.PASS_THROUGH:
            raise
        except BaseException:  # (a refusal may be the library's _ItemsNotDefined, a BaseException)
            pass
        if env.log:
            raise Violation('construction-evaluates|derived', f'{desc}\nconstructing .{what} on top evaluated '
                                                              f'{env.log[:6]}')
    ref = LazyRef()
    mode = case['mode']
    try:
        if mode == 'cycle':
            k = case['arg']
            cyc = ds.cycle()
            if env.log:
                raise Violation('cycle-construction-evaluates', f'{desc}\nds.cycle() alone evaluated {env.log[:6]}')
            cyc_it = iter(cyc)
            list(itertools.islice(cyc_it, k))
            if hasattr(cyc_it, 'close'):
                cyc_it.close()  # no suspended generator is left to the garbage collector
            list(itertools.islice(ref.iter(node), k))
        elif mode == 'prefix':
            k = case['arg']
            it = iter(ds)
            got = []
            for _ in range(k):
                try:
                    got.append(next(it))
                except StopIteration:
                    break
            if hasattr(it, 'close'):
                it.close()
            list(itertools.islice(ref.iter(node), k))
        elif mode in ('absent-key', 'outside-index'):
            # a refused access has no result: nothing may be evaluated for it
            try:
                v = ds[case['arg']]
            except Exception:
                pass
            else:
                raise Violation(f'{mode}-answered', f'{desc}\nreturned {v!r}')
        elif mode == 'index':
            ds[case['arg']]
            i = case['arg']
            ref.get(node, 'r', i % ev(node).n)
        else:
            ds[case['arg']]
            ref.getkey(node, 'r', case['arg'])
    except Violation:
        raise
    except Exception as e:
        raise RuntimeError(f'harness: {desc}: {type(e).__name__}: {e}')
    try:
        compare(node, list(env.log), ref.log, 'prefix' if mode == 'cycle' else mode)
    except Violation as v:
        raise Violation(v.sig, f'{desc}\n{v.detail}')


def check_bucket(case):
    """Dynamic bucket batching with a callable sort_key: the stage's own user function (sort_key) and the stage below
    see every example at most once, the stage below in source order; nothing runs at construction."""
    import lazy_dataset
    seq, p = case['lengths'], case['params']
    desc = f'dynamic buckets: lengths={seq} params={p} drop={case["drop"]} batches consumed={case.get("k")}'
    below, sort_calls = [], []

    def spy(ex):
        below.append(ex['id'])
        return ex

    def sort_key(ex):
        sort_calls.append(ex['id'])
        return ex['len']

    ds = lazy_dataset.new([{'id': i, 'len': n} for i, n in enumerate(seq)]).map(spy)
    ds = ds.batch_dynamic_time_series_bucket(
        batch_size=p['batch_size'], len_key='len', max_padding_rate=p['rate'], max_total_size=p['mts'],
        expiration=p['expiration'], max_buffered_examples=p['mbe'], drop_incomplete=case['drop'],
        sort_key=sort_key, reverse_sort=p.get('reverse', False))
    if below or sort_calls:
        raise Violation('construction-evaluates|bucket', f'{desc}\nconstruction evaluated {below} / {sort_calls}')
    it = iter(ds)
    out = []
    k = case.get('k')
    while k is None or len(out) < k:
        try:
            out.append([ex['id'] for ex in next(it)])
        except StopIteration:
            break
    it.close()
    if below != sorted(set(below)):
        raise Violation('prefix-evaluated-twice|bucket', f'{desc}\nthe stage below the buckets saw {below}')
    twice = sorted({i for i in sort_calls if sort_calls.count(i) > 1})
    if twice:
        raise Violation('prefix-evaluated-twice|bucket-sort-key',
                        f'{desc}\nsort_key was applied more than once to the examples {twice}: calls {sort_calls}')
    emitted = {i for b in out for i in b}
    extra = sorted(set(sort_calls) - emitted) if not case['drop'] else []
    if extra:
        raise Violation('prefix-evaluated-without-demand|bucket-sort-key',
                        f'{desc}\nsort_key was applied to {extra}, which are in none of the batches handed out {out}')
    return len(out), bool(twice or sort_calls)


def check_failing_lookup(case):
    """ds[key] / ds[i] of an example whose evaluation FAILS: the user functions below run once for it, the failure
    comes out, nothing is retried through another access path."""
    import lazy_dataset
    exc_t = {'KeyError': KeyError, 'TypeError': TypeError, 'NotImplementedError': NotImplementedError,
             'ValueError': ValueError, 'IndexError': IndexError}[case['exc']]
    calls = []

    def f(x):
        calls.append(x)
        if x == 1:
            raise exc_t('this example cannot be processed')
        return x

    ds = lazy_dataset.new({'a': 0, 'b': 1, 'c': 2}).map(f)
    for t in case['tops']:
        ds = {'items': lambda d: d.items(), 'map': lambda d: d.map(lambda x: x), 'copy': lambda d: d.copy(),
              'slice': lambda d: d[::-1], 'cache': lambda d: d.cache(), 'catch_free': lambda d: d}[t](ds)
    for access in ('b', 1 if 'slice' not in case['tops'] else 1):
        del calls[:]
        try:
            ds[access]
        except exc_t:
            pass
        except Exception as e:
            raise Violation('failing-access-other-error', f'{case}: ds[{access!r}] raised {type(e).__name__}: {e}')
        else:
            raise Violation('failing-access-answered', f'{case}: ds[{access!r}] returned although the function failed')
        if calls != [1]:
            raise Violation('index-evaluated-twice|failing-example',
                            f'{case}: ds[{access!r}] of the failing example ran the mapped function for {calls}')


APPLY_TOPS = ['map', 'batch', 'prefetch1', 'catch', 'copy', 'batch_unbatch', 'local_shuffle', 'slice_none']


def check_apply(case):
    """A lazy apply stage (a user function from dataset to dataset) below a stack of lazy stages: the apply function
    runs at no time but when an iteration starts, once per iteration; the stage it builds sees every example once per
    iteration."""
    import lazy_dataset
    n, tops, epochs = case['n'], case['tops'], case['epochs']
    desc = f'new(range({n})).apply(f, lazy=True) below {tops}, {epochs} iteration(s)'
    apply_calls, inner = [], []

    def spy(x):
        inner.append(x)
        return x

    def f(d):
        apply_calls.append(1)
        return d.map(spy)

    ds = lazy_dataset.new(list(range(n))).apply(f, lazy=True)
    for t in tops:
        if t == 'map':
            ds = ds.map(lambda x: x)
        elif t == 'batch':
            ds = ds.batch(2)
        elif t == 'prefetch1':
            ds = ds.prefetch(1, 2)
        elif t == 'catch':
            ds = ds.catch()
        elif t == 'copy':
            ds = ds.copy()
        elif t == 'batch_unbatch':
            ds = ds.batch(3).unbatch()
        elif t == 'local_shuffle':
            ds = ds.shuffle(True, buffer_size=2)
    if apply_calls or inner:
        raise Violation('construction-evaluates|apply', f'{desc}\nconstruction ran the apply function '
                                                        f'{len(apply_calls)} time(s), its stage saw {inner}')
    for e in range(epochs):
        got, exc, _ = observe.take(lambda: ds, 10 * n + 10)
        if exc is not None:
            raise RuntimeError(f'harness: {desc}: {exc!r}')
        if len(apply_calls) != e + 1:
            raise Violation('prefix-evaluated-twice|apply',
                            f'{desc}\nafter iteration {e + 1} the apply function had run {len(apply_calls)} times')
        if sorted(inner) != sorted(list(range(n)) * (e + 1)):
            raise Violation('prefix-evaluated-twice|apply-inner',
                            f'{desc}\nafter iteration {e + 1} the stage built by the apply function had seen {inner}')


def replay(case):
    progcheck.setup_process()
    if 'exc' in case and 'tops' in case:
        check_failing_lookup(case)
        return
    if 'tops' in case:
        check_apply(case)
    elif 'lengths' in case:
        check_bucket(case)
    else:
        check(case)


def unshare(node):
    """Every input of a stage is its own object here: the per-path call logs need one instrumented function per path."""
    node = {k: v for k, v in node.items() if k != 'share'}
    if 'ins' in node:
        node['ins'] = [unshare(c) for c in node['ins']]
    elif 'in' in node:
        node['in'] = unshare(node['in'])
    return node


@st.composite
def st_case(draw):
    ctx = gen.Ctx(modes=('pickle',))
    src = draw(gen.st_source(ctx))
    if draw(st.integers(0, 3)):
        src = {'op': 'map', 'fn': draw(st.integers(0, 3)), 'in': src}  # an instrumented stage right above the source
    node = draw(gen.st_program(ctx, LAZY, max_stages=5, source=src))
    node = unshare(node)
    m = ev(node)
    if m.taint or m.iter_taint or m.int_taint:
        # duplicate keys: key operations may refuse (C03); demand is studied on pipelines that answer
        node = next(n for n in progs.walk(node) if n['op'] in progs.LEAVES)
        m = ev(node)
    if m.indexable and m.sized and not m.has_raise and not m.unordered and draw(st.integers(0, 5)) == 0:
        eager_ops = ['filter_eager', 'sort', 'groupby']
        if m.cap_items == 'req' or not any(n['op'] == 'dict' for n in progs.walk(node)):
            # eager caching first probes items(); for a MIXED keyed / key-less input that probe evaluates the keyed
            # part before it fails and the fallback pass evaluates it again - a cost, not part of this statement
            eager_ops.append('cache_eager')
        return {'ast': node, 'mode': 'eager', 'arg': None, 'eager': draw(st.sampled_from(eager_ops))}
    modes = ['prefix', 'prefix']
    if m.indexable and m.sized and m.n and not m.int_taint:
        modes.append('index')
    if m.cap_str == 'req' and m.keys and not m.taint:
        modes.append('key')
    if m.n >= 1 and not m.has_raise:
        modes.append('cycle')
    absent = []
    selects_by_value = any(n['op'] in ('filter', 'catch', 'boom', 'frag', 'unbatch') for n in progs.walk(node))
    if m.cap_str == 'req' and m.keys is not None and not m.taint and not selects_by_value:
        below = [k for n in progs.walk(node) if n['op'] == 'dict' for k in n['keys']]
        absent = sorted(set(k for k in below + list(progs.ABSENT_KEYS) if k not in set(m.keys)))
        if absent:
            modes.append('absent-key')
    if m.indexable and m.sized and not m.int_taint and not selects_by_value and not any(
            n['op'] == 'batch' and n['drop_last'] for n in progs.walk(node)):
        modes.append('outside-index')
    mode = draw(st.sampled_from(modes))
    if mode == 'absent-key':
        arg = draw(st.sampled_from(absent))
    elif mode == 'outside-index':
        arg = draw(st.sampled_from([m.n, m.n + 1, -m.n - 1, -m.n - 2, 10 ** 6]))
    elif mode == 'cycle':
        arg = draw(st.integers(0, m.n))  # within the first pass: same demand as a plain prefix
    elif mode == 'prefix':
        arg = draw(st.integers(0, m.n + 1))
    elif mode == 'index':
        arg = draw(st.integers(-m.n, m.n - 1))
    else:
        arg = draw(st.sampled_from(sorted(set(m.keys))))
    return {'ast': node, 'mode': mode, 'arg': arg}


def run_shard(tier, idx, nshards, rec, known):
    progcheck.setup_process()

    def one(case):
        check(case)
        node = case['ast']
        m = ev(node)
        instrumented = sum(1 for n in progs.walk(node) if n['op'] in ('map', 'filter', 'frag', 'batch_map', 'parmap',
                                                                        'nonemap'))
        if case['mode'] == 'eager':
            nt = m.n >= 2 and instrumented >= 1
        elif case['mode'] in ('absent-key', 'outside-index'):
            nt = progs.depth(node) >= 2 and instrumented >= 1
        elif case['mode'] in ('prefix', 'cycle'):
            nt = 0 < case['arg'] < m.n and progs.depth(node) >= 2 and instrumented >= 2
        else:
            nt = progs.depth(node) >= 3
        cls = {'op:' + o for o in progs.ops(node)} | {'mode:' + case['mode']}
        rec.case({'program': progs.show(node), 'mode': case['mode'], 'arg': case['arg'], 'ast': node,
                  'eager': case.get('eager')}, nt, cls,
                 size=progs.size(node))
    # enumerated first: every key that a selection drops, looked up through the selection (nothing may be evaluated)
    from ..common import Outcome
    o0 = Outcome()
    if idx == 0:
        keys = ['a', 'b', 'c', 'd']
        for n in (2, 3, 4):
            src = {'op': 'map', 'fn': 1, 'in': {'op': 'dict', 'id': 1, 'keys': keys[:n], 'mode': 'pickle'}}
            forms = [{'k': 'slice', 'a': 1, 'b': None, 'c': None}, {'k': 'slice', 'a': None, 'b': -1, 'c': None},
                     {'k': 'slice', 'a': None, 'b': None, 'c': 2}, {'k': 'ilist', 'idx': [n - 1], 'as': 'list'},
                     {'k': 'ilist', 'idx': [0, n - 1], 'as': 'np64'}, {'k': 'keys', 'keys': [keys[0]], 'as': 'list'},
                     {'k': 'mask', 'bits': [i == 1 for i in range(n)], 'as': 'np'}]
            for form in forms:
                for above in (None, 'map', 'copy', 'cache', 'slice'):
                    node = {'op': 'slice', 'form': form, 'in': src}
                    if above == 'map':
                        node = {'op': 'map', 'fn': 2, 'in': node}
                    elif above == 'copy':
                        node = {'op': 'copy', 'freeze': False, 'in': node}
                    elif above == 'cache':
                        node = {'op': 'cache', 'lazy': True, 'in': node}
                    elif above == 'slice':
                        node = {'op': 'slice', 'form': {'k': 'slice', 'a': None, 'b': None, 'c': -1}, 'in': node}
                    kept = set(ev(node).keys)
                    for k in keys[:n]:
                        if k in kept:
                            continue
                        case = {'ast': node, 'mode': 'absent-key', 'arg': k}
                        try:
                            check(case)
                        except Violation as v:
                            if known.match(v.sig):
                                continue
                            o0.violation = (case, v.sig, v.detail)
                            return [o0]
                        rec.case({'program': progs.show(node), 'mode': 'absent-key', 'arg': k, 'ast': node}, True,
                                 {'enumerated', 'mode:absent-key'}, size=progs.size(node))
    if idx == 2 % nshards:
        for exc in ('KeyError', 'TypeError', 'NotImplementedError', 'ValueError'):
            for tops in ([], ['items'], ['map'], ['items', 'map'], ['copy', 'items'], ['cache'], ['map', 'items', 'copy']):
                case = {'exc': exc, 'tops': tops}
                try:
                    check_failing_lookup(case)
                except Violation as v:
                    if known.match(v.sig):
                        continue
                    o0.violation = (case, v.sig, v.detail)
                    return [o0]
                rec.case(case, True, {'enumerated', 'failing-lookup'}, size=len(tops))
    if idx == 1 % nshards:
        # key iteration over a concatenation of filtered parts, every prefix length: demand part by part
        for nparts in (2, 3):
            parts = []
            for j in range(nparts):
                src = {'op': 'map', 'fn': j, 'in': {'op': 'dict', 'id': j + 1, 'keys': [f'{chr(97 + j)}{i}' for i in range(3)],
                                                   'mode': 'pickle'}}
                parts.append({'op': 'filter', 'm': 2, 'r': j % 2, 'lazy': True, 'int': False,
                              'lazy_as': (None, 'np', 'int')[j % 3], 'in': src})
            for top in ('items', 'items_map', 'plain'):
                node = {'op': 'concat', 'how': 'method', 'ins': parts}
                if top != 'plain':
                    node = {'op': 'items', 'in': node}
                if top == 'items_map':
                    node = {'op': 'map', 'fn': 3, 'in': node}
                try:
                    total = ev(node).n
                except Exception:
                    continue
                for k in range(0, total + 2):
                    case = {'ast': node, 'mode': 'prefix', 'arg': k}
                    try:
                        check(case)
                    except Violation as v:
                        if known.match(v.sig):
                            continue
                        o0.violation = (case, v.sig, v.detail)
                        return [o0]
                    rec.case({'program': progs.show(node), 'mode': 'prefix', 'arg': k, 'ast': node}, 0 < k < total,
                             {'enumerated', 'mode:prefix', 'concat-of-filters'}, size=progs.size(node))
    o1 = drive(one, st_case(), N[tier], rec, known, seed() * 1000 + idx)
    if o1.violation:
        return [o1]

    from . import c17

    @st.composite
    def st_bucket(draw):
        c = draw(c17.st_case())
        c.pop('word', None)
        c['drop'] = draw(st.booleans())
        c['k'] = draw(st.sampled_from([None, None, 0, 1, 2, 3]))
        return c

    def bucket(case):
        nb, sorted_any = check_bucket(case)
        rec.case(dict(case, part='dynamic-buckets'), nb >= 2 and sorted_any and len(case['lengths']) >= 4,
                 {'dynamic-buckets', 'drop' if case['drop'] else 'keep'}, size=len(case['lengths']))
    o2 = drive(bucket, st_bucket(), N[tier] // 5, rec, known, seed() * 1000 + 500 + idx)
    if o2.violation:
        return [o1, o2]

    st_apply = st.fixed_dictionaries({'n': st.integers(0, 5), 'epochs': st.integers(1, 3),
                                      'tops': st.lists(st.sampled_from(APPLY_TOPS), min_size=0, max_size=4)})

    def apply_case(case):
        # catch() needs an input that is indexable once frozen: only directly above the apply stage
        case['tops'] = [t for i, t in enumerate(case['tops']) if t != 'catch' or i == 0]
        check_apply(case)
        rec.case(dict(case, part='lazy-apply'), len(case['tops']) >= 2 and case['n'] >= 2,
                 {'lazy-apply'} | {'top:' + t for t in case['tops']}, size=len(case['tops']))
    return [o1, o2, drive(apply_case, st_apply, N[tier] // 10, rec, known, seed() * 1000 + 700 + idx)]
