"""C17 - dynamic bucketing conserves examples and honours its limits."""
import itertools

from hypothesis import strategies as st

from ..common import Outcome, Violation, drive, seed

PID = 'C17'
RULE = ('(1) bounded-exhaustive: every length sequence over {1,2,3,5,8,13} up to length L (quick 3, thorough 5) x '
        'batch_size 1..3 x padding rate {0,.2,.5,.9} x expiration {None,0,1,2,3} x max_buffered {None,1,2,4} x '
        'max_total_size {None,4,10} x sort on/off, each in both drop modes; (2) Hypothesis: random sequences up to '
        'length 40 (integer and fractional lengths) and the full parameter ranges of the statement. Oracle: validity predicates over the emitted '
        'batches and the pull log of an instrumented source + the drop/no-drop metamorphic relation. Non-trivial: '
        '>=2 buckets open at some moment and at least one of expiry / overflow / completion fired; distinct by '
        '(sequence, parameters).')
ASSUMPTIONS = [
    'a batch is "completed" iff it is full or adding one more example of its longest length would exceed '
    'max_total_size (the documented completion rule); exactly those survive drop_incomplete=True',
    'padding-rate comparison uses a relative tolerance of 1e-9 (1 - 0.9 is not exact in binary floating point)',
    'max_buffered_examples is checked whenever control is with the consumer; right after a pull one more is in flight',
]
ALPHABET = [1, 2, 3, 5, 8, 13]
L = {'quick': 3, 'thorough': 5}
N_RANDOM = {'quick': 1500, 'thorough': 10000}
GRID = list(itertools.product([1, 2, 3], [0, .2, .5, .9], [None, 0, 1, 2, 3], [None, 1, 2, 4], [None, 4, 10],
                              [False, True]))


def plan(tier):
    return {'shards': 4 if tier == 'quick' else 16, 'exhaustive': True}


class CountingSource:
    """A dataset whose every iteration counts its own pulls (so that two iterators in flight are told apart)."""

    def __new__(cls, examples):
        import lazy_dataset

        class _Src(lazy_dataset.Dataset):
            def __init__(self, examples, counters=None):
                self.examples = examples
                self.counters = counters if counters is not None else []

            def copy(self, freeze=False):
                return _Src(self.examples, self.counters)

            @property
            def indexable(self):
                return False

            @property
            def ordered(self):
                return True

            def __len__(self):
                return len(self.examples)

            def __iter__(self, with_key=False):
                c = [0]
                self.counters.append(c)
                for ex in self.examples:
                    c[0] += 1
                    yield ex
        return _Src(examples)


def make_bucket_ds(src, p, drop):
    ds = src
    api = p.get('api')
    if api == 'positional':
        # the documented parameter order, passed by position
        ds = ds.batch_dynamic_time_series_bucket(
            p['batch_size'], 'len', p['rate'], p['mts'], p['expiration'], p['mbe'], drop,
            'len' if p['sort'] else None, p.get('reverse', False))
    elif api == 'custom_bucket':
        # a user bucket class that refines maybe_append (one parity of ids per batch): its refusals count
        from lazy_dataset import core

        class ParityBucket(core.DynamicTimeSeriesBucket):
            def maybe_append(self, example):
                if self.data and self.data[0]['id'] % 2 != example['id'] % 2:
                    return False
                return super().maybe_append(example)
        ds = ds.batch_dynamic_bucket(
            ParityBucket, expiration=p['expiration'], max_buffered_examples=p['mbe'], drop_incomplete=drop,
            sort_key='len' if p['sort'] else None, reverse_sort=p.get('reverse', False), batch_size=p['batch_size'],
            len_key='len', max_padding_rate=p['rate'], max_total_size=p['mts'])
    else:
        ds = ds.batch_dynamic_time_series_bucket(
            batch_size=p['batch_size'], len_key='len', max_padding_rate=p['rate'], max_total_size=p['mts'],
            expiration=p['expiration'], max_buffered_examples=p['mbe'], drop_incomplete=drop,
            sort_key='len' if p['sort'] else None, reverse_sort=p.get('reverse', False))
    return ds


def run_two_iterators(seq, p, word):
    """Two iterators over ONE bucket dataset object, next() calls interleaved as `word` says. Returns per iterator
    (batches, pulls at each emission)."""
    src = CountingSource([{'id': i, 'len': n} for i, n in enumerate(seq)])
    ds = make_bucket_ds(src, p, False)
    its = [iter(ds), iter(ds)]
    outs = [([], []), ([], [])]
    done = [False, False]
    order = list(word) + [0, 1] * (len(seq) + 2)
    for w in order:
        if all(done):
            break
        if done[w]:
            continue
        try:
            b = next(its[w])
        except StopIteration:
            done[w] = True
            continue
        # the counter of iterator w is the w-th created one that belongs to it: identify by creation order per iterator
        outs[w][0].append([(ex['id'], ex['len']) for ex in b])
        outs[w][1].append(None)
    return outs, src.counters


def run_bucket(seq, p, drop, via_copy=False):
    """Returns (batches as lists of (id, len), pulls at each emission)."""
    import lazy_dataset
    pulls = [0]

    def spy(ex):
        pulls[0] += 1
        return ex

    ds = lazy_dataset.new([{'id': i, 'len': n} for i, n in enumerate(seq)]).map(spy)
    if p.get('unsized'):
        ds = ds.filter(lambda e: True)  # a source that cannot tell its length (a lazy filter upstream)
    # the flag as callers spell it: bool, int, None, numpy bool
    import numpy as np
    k = p.get('flag_kind', 0)
    drop = ([True, 1, np.True_] if drop else [False, 0, None, np.False_])[k % (3 if drop else 4)]
    if via_copy:
        ds = make_bucket_ds(ds, p, drop).copy()
        out, at = [], []
        for batch in ds:
            out.append([(ex['id'], ex['len']) for ex in batch])
            at.append(pulls[0])
        return out, at, pulls[0]
    ds = make_bucket_ds(ds, p, drop)
    out, at = [], []
    for batch in ds:
        out.append([(ex['id'], ex['len']) for ex in batch])
        at.append(pulls[0])
    return out, at, pulls[0]


def completed(batch, p):
    mx = max(n for _, n in batch)
    return len(batch) >= p['batch_size'] or (p['mts'] is not None and (len(batch) + 1) * mx > p['mts'])


def check(seq, p):
    """Raises Violation; returns dict of fired mechanisms for the non-triviality rule."""
    desc = f'lengths={list(seq)} params={p}'
    out, at, total = run_bucket(seq, p, False)
    ids = [i for b in out for i, _ in b]
    if sorted(ids) != list(range(len(seq))):
        raise Violation('not-conserved', f'{desc}\nemitted ids {ids}; batches {out}')
    if total != len(seq):
        raise Violation('source-pull-count', f'{desc}\nsource examples pulled {total}, expected {len(seq)}')
    fired = set()
    delivered = 0
    max_open = 0
    for b, pulled in zip(out, at):
        if not b:
            raise Violation('empty-batch', f'{desc}\nbatches {out}')
        if len(b) > p['batch_size']:
            raise Violation('batch-too-large', f'{desc}\nbatch {b}')
        lens = [n for _, n in b]
        if min(lens) < max(lens) * (1 - p['rate']) * (1 - 1e-9):
            raise Violation('padding-bound', f'{desc}\nbatch {b}: min {min(lens)} < max {max(lens)} * (1 - rate)')
        if p.get('api') == 'custom_bucket' and len({i % 2 for i, _ in b}) > 1:
            raise Violation('custom-bucket-rule-ignored', f'{desc}\nbatch {b} mixes even and odd ids although the '
                                                          f'bucket class refuses that in maybe_append')
        if p['mts'] is not None and len(b) > 1 and len(b) * max(lens) > p['mts']:
            raise Violation('max-total-size', f'{desc}\nbatch {b}: {len(b)} * {max(lens)} > {p["mts"]}')
        created = min(i for i, _ in b)
        if p['expiration'] is not None and (pulled - 1) - created > p['expiration']:
            raise Violation('outlived-expiration',
                            f'{desc}\nbatch {b} emitted after {pulled} pulls, created at {created}')
        delivered += len(b)
        if p['mbe'] is not None and pulled - delivered > p['mbe']:
            raise Violation('max-buffered',
                            f'{desc}\nafter emitting {b}: pulled {pulled}, delivered {delivered}, limit {p["mbe"]}')
        if p['sort']:
            want = sorted(b, key=lambda t: t[1], reverse=p.get('reverse', False))
            if [n for _, n in b] != [n for _, n in want]:
                raise Violation('not-sorted', f'{desc}\nbatch {b}')
        else:
            if [i for i, _ in b] != sorted(i for i, _ in b):
                raise Violation('batch-order', f'{desc}\nbatch {b} not in arrival order')
        if completed(b, p):
            fired.add('completion')
        elif pulled < len(seq) or True:
            last = max(i for i, _ in b)
            if pulled - 1 > last or pulled < len(seq):
                fired.add('expiry-or-overflow')
        max_open = max(max_open, pulled - (delivered - len(b)))
    out_c, at_c, _ = run_bucket(seq, p, False, via_copy=True)
    if out_c != out or at_c != at:
        raise Violation('copy-behaves-differently', f'{desc}\ncopy(): batches {out_c} emitted after {at_c} pulls\n'
                                                    f'original: {out} after {at}')
    out_d, _, total_d = run_bucket(seq, p, True)
    want_d = [b for b in out if completed(b, p)]
    if out_d != want_d:
        raise Violation('drop-relation', f'{desc}\ndrop_incomplete=True gave {out_d}\nexpected the completed '
                                         f'batches of the drop_incomplete=False run: {want_d} (all: {out})')
    if total_d != len(seq):
        raise Violation('source-pull-count', f'{desc}\n(drop mode) pulled {total_d}')
    n_distinct_groups = len(out)
    return fired, n_distinct_groups, max_open


def check_two(seq, p, word):
    """Each of two interleaved iterators over one dataset object must deliver exactly what a lone iterator does."""
    desc = f'lengths={list(seq)} params={p} interleaving={word}'
    lone, _, _ = run_bucket(seq, p, False)
    outs, counters = run_two_iterators(seq, p, word)
    for w in (0, 1):
        if outs[w][0] != lone:
            raise Violation('iterators-interfere', f'{desc}\niterator {w} delivered {outs[w][0]}\na lone iterator '
                                                   f'delivers {lone}')


def nontrivial(seq, p, fired, nb, max_open):
    return nb >= 2 and bool(fired) and len(seq) >= 3 and max_open >= 2


def run_case(case):
    try:
        if 'word' in case:
            check_two(tuple(case['lengths']), case['params'], case['word'])
        return check(tuple(case['lengths']), case['params'])
    except Violation:
        raise
    except Exception as e:
        raise Violation('bucket-iteration-raised', f'lengths={case["lengths"]} params={case["params"]}\n'
                                                   f'{type(e).__name__}: {str(e)[:300]}')


def replay(case):
    run_case(case)


def params_of(t):
    return {'batch_size': t[0], 'rate': t[1], 'expiration': t[2], 'mbe': t[3], 'mts': t[4], 'sort': t[5],
            'reverse': False}


@st.composite
def st_case(draw):
    # lengths are scalars, not necessarily integers (durations in seconds)
    seq = draw(st.lists(st.sampled_from(ALPHABET + [4, 7, 20, 4.75, 2.5, 0.5, 9.99]), min_size=0, max_size=40))
    p = {
        'batch_size': draw(st.integers(1, 4)),
        'rate': draw(st.sampled_from([0, .2, .5, .9])),
        'expiration': draw(st.sampled_from([None, 0, 1, 2, 3, 4, 5])),
        'mbe': draw(st.sampled_from([None, 1, 2, 3, 4, 5])),
        'mts': draw(st.sampled_from([None, 4, 10, 16])),
        'sort': draw(st.booleans()),
        'reverse': draw(st.booleans()),
    }
    if draw(st.integers(0, 3)) == 0:
        p['unsized'] = True
    if draw(st.integers(0, 2)) == 0:
        p['flag_kind'] = draw(st.integers(1, 3))
    if draw(st.integers(0, 2)) == 0:
        p['api'] = draw(st.sampled_from(['positional', 'custom_bucket']))
    if draw(st.integers(0, 3)) == 0:
        # lengths counted in samples, not seconds: the same shape a million times larger, off by single samples
        scale = draw(st.sampled_from([10 ** 6, 2 ** 20, 10 ** 9, 48000 * 3600]))
        seq = [int(x * scale) + draw(st.integers(-1, 1)) for x in seq]
        if p['mts'] is not None:
            p['mts'] = p['mts'] * scale
    case = {'lengths': seq, 'params': p}
    if draw(st.integers(0, 3)) == 0:
        case['word'] = draw(st.lists(st.integers(0, 1), min_size=0, max_size=20))
    return case


def big_cases():
    """Enumerated: two or three lengths around 1e6 / 2e6 that differ from the exact padding bound by single units."""
    out = []
    for scale in (10 ** 6, 2 ** 20):
        vals = [m * scale + d for m in (1, 2) for d in (-1, 0, 1)]
        for n in (2, 3):
            for seq in itertools.product(vals, repeat=n):
                for rate in (0, .5, .9):
                    for bs in (2, 3):
                        out.append({'lengths': list(seq), 'params': {'batch_size': bs, 'rate': rate, 'expiration': None,
                                                                     'mbe': None, 'mts': None, 'sort': False,
                                                                     'reverse': False}})
    return out


def run_shard(tier, idx, nshards, rec, known):
    out = Outcome()
    for j, case in enumerate(big_cases()):
        if j % nshards != idx:
            continue
        try:
            fired, nb, mo = check(tuple(case['lengths']), case['params'])
        except Violation as v:
            if known.match(v.sig):
                rec.known_hits[v.sig] += 1
                continue
            out.violation = (case, v.sig, v.detail)
            return [out]
        rec.case(case, True, ['enumerated', 'big-lengths'] + sorted(fired), size=len(case['lengths']))
    k = 0
    for n in range(L[tier] + 1):
        for seq in itertools.product(ALPHABET, repeat=n):
            k += 1
            if k % nshards != idx:
                continue
            for t in GRID:
                p = params_of(t)
                case = {'lengths': list(seq), 'params': p}
                try:
                    fired, nb, mo = check(seq, p)
                    if p['mbe'] in (1, 2) and p['batch_size'] == 2 and n >= 2 and not p['sort']:
                        for word in ([0, 1] * n, [0, 0, 1] * n):
                            case = {'lengths': list(seq), 'params': p, 'word': word}
                            check_two(seq, p, word)
                        case = {'lengths': list(seq), 'params': p}
                except Violation as v:
                    if known.match(v.sig):
                        rec.known_hits[v.sig] += 1
                        continue
                    out.violation = (case, v.sig, v.detail)
                    return [out]
                rec.case(case, nontrivial(seq, p, fired, nb, mo),
                         ['enumerated', f'len:{n}'] + sorted(fired), size=n)

    def hyp(case):
        fired, nb, mo = run_case(case)
        rec.case(case, nontrivial(case['lengths'], case['params'], fired, nb, mo),
                 ['random', f'len:{min(len(case["lengths"]) // 10 * 10, 40)}+'] + sorted(fired),
                 size=len(case['lengths']))

    o2 = drive(hyp, st_case(), N_RANDOM[tier], rec, known, seed() * 1000 + idx)
    return [out, o2]
