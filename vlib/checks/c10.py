"""C10 - the memory cache is transparent, computes each example once, and freezes it (access histories)."""
import itertools
import types

import numpy as np
from hypothesis import strategies as st

from .. import progcheck
from ..common import Outcome, Violation, drive, seed

PID = 'C10'
RULE = ('Hypothesis histories + bounded-exhaustive short histories: a counting upstream map (every recomputation is '
        'visible in the value: (x, call number)) over a list / dict source of n <= 5 examples behind cache() with '
        'keep_mem_free in {default, sizes, percentages} and a patched psutil; steps: ds[i] with positive / negative '
        '/ numpy indices, ds[key], ds[a:][j], full and partial iteration, copy() (later steps may go through the '
        'copy), iteration through prefetch(2,2) and prefetch(1,1) on the thread backend, available memory dropping '
        'below / recovering above the threshold; eager cache(lazy=False) followed by reads. Oracle (model): every '
        'value returned for a position equals the first value computed for it while caching was permitted; '
        'upstream calls per position <= 1 until memory was short for the first time; afterwards cached positions '
        'stay frozen and every value is a genuine pipeline value; eager: n upstream calls in order, never more. '
        'Non-trivial: the same position reached through >= 2 different access paths, or a threshold crossing '
        'mid-history; distinct by case JSON.')
ASSUMPTIONS = [
    '"while memory permits" is driven by a patched psutil.virtual_memory (plain namespace with total / available)',
    'after memory was short once, positions not cached before carry no expectation beyond "a genuine pipeline value"',
    'len(ds._cache) is never inspected; only behaviour',
]
N = {'quick': 2000, 'thorough': 8000}
GIB = 1024 ** 3
TOTAL = 64 * GIB
KEEPS = [None, '1 GB', '10%', '50%', '90%', 2 * GIB]
PATHS = ['idx', 'neg', 'np64', 'np32', 'key', 'slice', 'iter', 'partial', 'prefetch2', 'prefetch1', 'items',
         'iter_nested', 'zipself']


def plan(tier):
    return {'shards': 4 if tier == 'quick' else 16}


def threshold(keep):
    if keep is None:
        return 8 * GIB
    if isinstance(keep, int):
        return keep
    if keep.endswith('%'):
        return TOTAL * float(keep[:-1]) / 100
    return {'1 GB': 1 * GIB}[keep]


class Mem:
    def __init__(self, available):
        self.available = available

    def __call__(self):
        return types.SimpleNamespace(total=TOTAL, available=self.available)


def check(case):
    import lazy_dataset
    import psutil
    n, cont = case['n'], case['container']
    mem = Mem(case['available'] * GIB)
    saved = psutil.virtual_memory
    psutil.virtual_memory = mem
    calls = {}  # pos -> list of call numbers
    counter = itertools.count(1)

    def counting(x):
        c = next(counter)
        calls.setdefault(x, []).append(c)
        if x == case.get('none_x'):
            return None  # None is a legitimate example: cached like any other (the call counter shows recomputation)
        if case.get('unpicklable'):
            return [x, c, (lambda: None)]  # cannot be pickled: the cache may refuse it (never half-handle it)
        if case.get('as_obj'):
            return Rec(x, c)  # an instance of a user class: mutable, but hashable (by identity)
        if case.get('with_array'):
            # ... that also holds a numpy array (a feature matrix): the consumer normalises it IN PLACE
            import numpy as np
            return [x, c, np.array([x, c, 7.0])]
        return [x, c]  # a mutable example: the consumer may change it in place (step 'mut')

    keys = ['k%d' % i for i in range(n)]
    src = lazy_dataset.new(dict(zip(keys, range(n)))) if cont == 'dict' else lazy_dataset.new(list(range(n)))
    # an optional derived dataset between source and counting map (eager caching has to probe it for keys)
    upk = case.get('upstream')
    xs = list(range(n))
    if upk == 'tail':
        src, xs, keys = src[1:], xs[1:], keys[1:]
    elif upk == 'rev':
        src, xs, keys = src[::-1], xs[::-1], keys[::-1]
    elif upk == 'sortrev':
        src, xs, keys = src.sort(lambda x: -x), xs[::-1], keys[::-1]
    elif upk == 'dupcat':
        src, xs, keys = src.concatenate(src), xs + xs, keys + keys
        cont = 'list'  # duplicate keys: the eager snapshot is list-backed, there is no key lookup
    elif upk == 'filt':
        src = src.filter(lambda x: x % 2 == 0)
        keys = [k for k, x in zip(keys, xs) if x % 2 == 0]
        xs = [x for x in xs if x % 2 == 0]
    n = len(xs)
    if n == 0:
        psutil.virtual_memory = saved
        return False
    pos_of = {x: i for i, x in enumerate(xs)}
    up = src.map(counting)
    desc = f'{ {k: v for k, v in case.items()} }'
    try:
        if case.get('eager'):
            base = up
            if case.get('pre') is not None:
                # eager caching on top of a partly filled lazy cache: still a complete snapshot at call time
                base = up.cache()
                for q in case['pre']:
                    base[q % n]
            try:
                ds = base.cache(lazy=False)
            except Exception as e:
                if case.get('unpicklable'):
                    if sum(len(v) for v in calls.values()) > n:
                        raise Violation('eager-call-count', f'{desc}\nthe refused eager cache ran the upstream pipeline '
                                                            f'more than once per example: {calls}')
                    return False  # refused what it cannot serialise: fine
                raise Violation('eager-cache-raised', f'{desc}\ncache(lazy=False) raised {type(e).__name__}: '
                                                      f'{str(e)[:300]}')
            want = [[x, i + 1] for i, x in enumerate(xs)]
            if case.get('pre') is not None:
                want = [[x, calls.get(x, [None])[0]] for x in xs]
            want = [None if x == case.get('none_x') else w_ for x, w_ in zip(xs, want)]
            if sum(len(v) for v in calls.values()) != n:
                raise Violation('eager-call-count', f'{desc}\nupstream calls at construction {calls}')
            targets = [ds]
        else:
            kw = {} if case['keep'] is None else {'keep_mem_free': case['keep']}
            ds = up.cache(**kw)
            targets = [ds]
            want = None
        thr = threshold(case['keep'])
        first = {}
        ever_short = False
        paths_used = {}
        crossing = False

        def observe(p, v, path):
            nonlocal ever_short
            last.append(v)
            if xs[p] == case.get('none_x'):
                if v is not None:
                    raise Violation(f'not-a-pipeline-value|{path}', f'{desc}\nposition {p} via {path} returned {v!r}; '
                                                                    f'the pipeline produces None there')
                paths_used.setdefault(p, set()).add(path)
                return
            if case.get('unpicklable') and isinstance(v, list) and len(v) == 3:
                v = v[:2]
            if case.get('as_obj') and isinstance(v, Rec):
                v = [v.x, v.c]
            if case.get('with_array') and isinstance(v, list) and len(v) == 3:
                import numpy as np
                if not (isinstance(v[2], np.ndarray) and v[2].shape == (3,) and
                        np.array_equal(v[2], np.array([v[0], v[1], 7.0]))):
                    raise Violation(f'not-frozen-array|{path}', f'{desc}\nposition {p} via {path} returned {v!r}; the '
                                                                f'array the pipeline produced next to {v[:2]} was '
                                                                f'[{v[0]}, {v[1]}, 7.0] (an earlier consumer changed '
                                                                f'its own copy in place)')
                v = v[:2]
            if not (isinstance(v, list) and len(v) == 2 and v[0] == xs[p] and v[1] in calls.get(xs[p], [])):
                raise Violation(f'not-a-pipeline-value|{path}', f'{desc}\nposition {p} via {path} returned {v!r}; '
                                                                f'upstream produced {calls.get(xs[p])} for {xs[p]}')
            paths_used.setdefault(p, set()).add(path)
            if case.get('eager'):
                if v != want[p]:
                    raise Violation(f'eager-not-frozen|{path}', f'{desc}\nposition {p} via {path}: {v}, snapshot {want[p]}')
                return
            if p in first:
                if v != first[p]:
                    raise Violation(f'not-frozen|{path}', f'{desc}\nposition {p} via {path} returned {v}; the value '
                                                          f'computed first (and cached) was {first[p]}')
            elif not ever_short and mem.available > thr:
                first[p] = list(v)

        def after_access():
            nonlocal ever_short
            if mem.available <= thr:
                ever_short = True
            if not ever_short:
                for p, cs in calls.items():
                    if len(cs) > xs.count(p):  # (a value that occurs twice in the dataset is computed twice)
                        raise Violation('computed-twice', f'{desc}\nupstream ran {len(cs)} times for position {p} '
                                                          f'although memory permitted caching: calls {calls}')
            if case.get('eager') and sum(len(v) for v in calls.values()) != n:
                raise Violation('eager-recomputed', f'{desc}\nupstream calls {calls}')

        last = []
        short_computed = set()
        latched = set()       # targets that had a miss while memory was short: they never cache again
        maybe_cached = set()  # values computed at least once under conditions that allow caching
        DIRECT = ('idx', 'neg', 'np64', 'np32', 'key', 'iter', 'items', 'partial', 'iter_nested', 'zipself')
        for step in case['steps']:
            kind = step[0]
            if kind == 'mut':
                # in-place change of everything the previous access returned: must never reach the cache
                for obj in last:
                    if obj is None:
                        continue
                    if isinstance(obj, Rec):
                        obj.x, obj.c = 'mutated', -1
                        continue
                    if case.get('with_array') and len(obj) >= 3 and hasattr(obj[2], 'shape'):
                        obj[2] *= 0.5
                        obj[2][0] = -5.0
                        continue  # (only the array is touched, the list around it stays as it was)
                    obj.append('mutated')
                    obj[1] = -1
                del last[:]
                continue
            if kind != 'copy':
                del last[:]
            if kind == 'mem':
                before = mem.available > thr
                mem.available = step[1] * GIB
                if mem.available > thr:
                    short_computed.clear()  # memory recovered: an un-latched copy may cache again
                if before != (mem.available > thr):
                    crossing = True
                continue
            if kind == 'copy':
                targets.append(targets[step[1] % len(targets)].copy())
                continue
            _, path, pos, tgt = step
            d = targets[tgt % len(targets)]
            t_id = tgt % len(targets)
            was_latched = t_id in latched
            p = pos % n
            if mem.available <= thr:
                ever_short = True  # a miss during this access would not be cached
            low_during = mem.available <= thr
            calls_before = {x: len(v) for x, v in calls.items()}
            cached_before = set(first)
            try:
                if path == 'idx':
                    observe(p, d[p], path)
                elif path == 'neg':
                    observe(p, d[p - n], path)
                elif path == 'np64':
                    observe(p, d[np.int64(p)], path)
                elif path == 'np32':
                    observe(p, d[np.int32(p - n)], path)
                elif path == 'key':
                    observe(p, d[keys[p]] if cont == 'dict' else d[p], path)
                elif path == 'slice':
                    a = pos % (n + 1)
                    sub = d[a:]
                    if len(sub):
                        j = (pos // 2) % len(sub)
                        observe(a + j, sub[j], path)
                elif path == 'iter':
                    for i, v in enumerate(d):
                        observe(i, v, path)
                elif path == 'items':
                    if cont == 'dict':
                        for i, (k, v) in enumerate(d.items()):
                            if k != keys[i]:
                                raise Violation('items-key', f'{desc}\nitems() key {k} at {i}')
                            observe(i, v, path)
                    else:
                        for i, v in enumerate(d):
                            observe(i, v, path)
                elif path == 'partial':
                    it = iter(d)
                    for i in range(p + 1):
                        observe(i, next(it), path)
                    it.close()
                elif path == 'iter_nested':
                    # an index access from inside the loop body of an iteration over the same object
                    for i, v in enumerate(d):
                        observe(i, v, path)
                        j = (pos + i) % n
                        observe(j, d[j], path)
                elif path == 'zipself':
                    for i, (v1, v2) in enumerate(zip(d, d)):
                        observe(i, v1, path)
                        observe(i, v2, path)
                elif path in ('prefetch2', 'prefetch1'):
                    pf = d.prefetch(2, 2) if path == 'prefetch2' else d.prefetch(1, 1)
                    for i, v in enumerate(pf):
                        observe(i, v, path)
            except Violation:
                raise
            except Exception as e:
                raise Violation(f'access-raised|{path}', f'{desc}\nstep {step} raised {type(e).__name__}: {e}')
            after_access()
            computed_now = {x for x, v in calls.items() if len(v) > calls_before.get(x, 0)}
            if not case.get('eager'):
                if was_latched and path in ('idx', 'neg', 'np64', 'np32', 'key'):
                    # "once the threshold is crossed no further examples are cached": this dataset object met the
                    # shortage on a miss before; a position whose every computation so far happened under conditions
                    # that forbid caching cannot be served from the cache now - also after memory recovered
                    x = xs[p]
                    if x not in maybe_cached and calls_before.get(x, 0) > 0 and x not in computed_now:
                        raise Violation(f'cached-after-threshold-crossed|{path}',
                                        f'{desc}\nposition {p} was only ever computed while memory was short or '
                                        f'through a dataset object that had already met the shortage, yet this read '
                                        f'was served without recomputation: calls {calls.get(x)}')
                if low_during and computed_now and path in DIRECT:
                    latched.add(t_id)
                if not low_during and not (was_latched and path in DIRECT):
                    maybe_cached |= computed_now
            if low_during and not case.get('eager') and path in ('idx', 'neg', 'np64', 'np32', 'key'):
                # "once the threshold is crossed no further examples are cached": a position that was not cached
                # before and is read while memory is short must have been computed for THIS access
                x = xs[p]
                if p not in cached_before and len(calls.get(x, [])) == calls_before.get(x, 0) and \
                        calls_before.get(x, 0) > 0 and x in short_computed:
                    raise Violation(f'cached-although-memory-short|{path}',
                                    f'{desc}\nposition {p} was first computed while memory was short, yet a later '
                                    f'read (memory still short) was served without recomputation: calls {calls.get(x)}')
                if p not in cached_before and len(calls.get(x, [])) > calls_before.get(x, 0):
                    short_computed.add(x)  # computed for this access while memory was short: must not be cached
        multi = any(len(s) >= 2 for s in paths_used.values())
        return multi or crossing
    finally:
        psutil.virtual_memory = saved


class Rec:
    """An example that is an instance of a plain user class (hashable by identity, mutable, picklable)."""

    def __init__(self, x, c):
        self.x, self.c = x, c

    def __repr__(self):
        return f'Rec({self.x!r}, {self.c!r})'


def replay(case):
    progcheck.setup_process()
    check(case)


@st.composite
def st_case(draw):
    n = draw(st.integers(1, 5))
    case = {'n': n, 'container': draw(st.sampled_from(['list', 'dict'])),
            'keep': draw(st.sampled_from(KEEPS)), 'available': draw(st.sampled_from([60, 40, 12, 4, 0.95])),
            'eager': draw(st.integers(0, 7)) == 0}
    if case['eager']:
        case['keep'] = None
        case['available'] = 60
        case['upstream'] = draw(st.sampled_from([None, 'tail', 'rev', 'sortrev', 'filt', 'dupcat']))
        if draw(st.integers(0, 3)) == 0:
            case['unpicklable'] = True
        if case['upstream'] not in ('filt', 'dupcat') and not case.get('unpicklable') and draw(st.booleans()):
            case['pre'] = draw(st.lists(st.integers(0, 5), min_size=0, max_size=4))
    else:
        case['upstream'] = draw(st.sampled_from([None, None, 'tail', 'rev', 'sortrev']))
    if draw(st.integers(0, 3)) == 0 and not case.get('unpicklable'):
        case['none_x'] = draw(st.integers(0, n - 1))
    if draw(st.integers(0, 2)) == 0 and not case.get('unpicklable'):
        case['with_array'] = True
    elif draw(st.integers(0, 3)) == 0 and not case.get('unpicklable'):
        case['as_obj'] = True
    steps = []
    for _ in range(draw(st.integers(1, 9))):
        r = draw(st.integers(0, 11))
        if r == 0 and not case['eager']:
            steps.append(['mem', draw(st.sampled_from([0.1, 60, 0.5, 40, 0.95, 0.95]))])
        elif r == 1:
            steps.append(['copy', draw(st.integers(0, 3))])
        elif r == 2:
            steps.append(['mut'])
        else:
            steps.append(['acc', draw(st.sampled_from(PATHS)), draw(st.integers(0, 9)), draw(st.integers(0, 3))])
    case['steps'] = steps
    return case


def run_shard(tier, idx, nshards, rec, known):
    progcheck.setup_process()
    out = Outcome()
    # bounded-exhaustive: all histories of length <= L over a small alphabet, n = 2
    alphabet = [['mut'], ['acc', 'idx', 1, 0], ['acc', 'neg', 1, 0], ['acc', 'np32', 0, 1], ['acc', 'iter', 0, 1],
                ['acc', 'slice', 1, 0], ['acc', 'key', 0, 0], ['copy', 0], ['mem', 0.1], ['acc', 'prefetch2', 0, 1],
                ['acc', 'iter_nested', 1, 0]]
    L = 3 if tier == 'quick' else 4
    k = 0
    for ln in range(1, L + 1):
        for hist in itertools.product(alphabet, repeat=ln):
            k += 1
            if k % nshards != idx:
                continue
            for cont in ('list', 'dict'):
                case = {'n': 2, 'container': cont, 'keep': '1 GB', 'available': 60, 'eager': False,
                        'steps': [list(s) for s in hist]}
                try:
                    nt = check(case)
                except Violation as v:
                    if known.match(v.sig):
                        rec.known_hits[v.sig] += 1
                        continue
                    out.violation = (case, v.sig, v.detail)
                    return [out]
                rec.case(case, nt, ['enumerated', f'history-len:{ln}'], size=ln)

    # memory falls below the threshold, a miss meets the shortage, memory recovers: every history of length <= 2
    # over the direct accesses afterwards (the latch must hold)
    acc = [['acc', 'idx', 0, 0], ['acc', 'idx', 1, 0], ['acc', 'neg', 1, 0], ['acc', 'key', 0, 0], ['acc', 'iter', 0, 0],
           ['acc', 'np32', 2, 0]]
    k = 0
    for first in acc[:3]:
        for ln in (1, 2, 3):
            for hist in itertools.product(acc, repeat=ln):
                k += 1
                if k % nshards != idx:
                    continue
                case = {'n': 3, 'container': 'dict', 'keep': '1 GB', 'available': 60, 'eager': False,
                        'steps': [['mem', 0.1], list(first), ['mem', 60]] + [list(s) for s in hist]}
                try:
                    check(case)
                except Violation as v:
                    if known.match(v.sig):
                        rec.known_hits[v.sig] += 1
                        continue
                    out.violation = (case, v.sig, v.detail)
                    return [out]
                rec.case(case, True, ['enumerated', 'shortage-then-recovery'], size=ln + 3)

    def one(case):
        nt = check(case)
        cls = ['random', 'keep:' + str(case['keep']), 'eager' if case['eager'] else 'lazy']
        cls += sorted({'path:' + s[1] for s in case['steps'] if s[0] == 'acc'})
        if any(s[0] == 'mem' for s in case['steps']):
            cls.append('memory-step')
        if any(s[0] == 'copy' for s in case['steps']):
            cls.append('copy-step')
        rec.case(case, nt, cls, size=len(case['steps']))
    return [out, drive(one, st_case(), N[tier], rec, known, seed() * 1000 + idx)]
