"""C01 - iterating a pipeline equals the eager reference semantics, repeatably."""
from .. import observe, progcheck, progs
from ..common import Violation
from ..refmodel import ev

PID = 'C01'
RULE = ('Hypothesis-generated pipeline programs (stage chain over list/dict sources of length 0..6 in pickle/copy/wu '
        'storage, n-ary combinators with generated operands; construction guided by the reference model so every '
        'program is valid) are built with the real library and iterated twice plus islice(cycle()); oracle = eager '
        'reference interpreter (plain list operations). Non-trivial: >=3 nodes and (multi-input stage, or a '
        'negative/repeated index or negative slice bound/step, or a source of length <=1, or a batch size not '
        'dividing the length, or raising elements / catch, or duplicate keys); distinct by canonical JSON.')
ASSUMPTIONS = [
    'the order of a seeded one-time shuffle is the permutation numpy RandomState(seed).shuffle yields (pinned by doctests)',
    'per-epoch random stages (reshuffle, local shuffle) are compared as multisets here; their order is C12/C13',
    'user functions are total; raising functions use private exception classes, never IndexError/KeyError/StopIteration',
    'multi-worker prefetch inside programs uses the thread backend under the OS scheduler; schedules are C04',
]
N = {'quick': 1500, 'thorough': 6000}
SHARDS = {'quick': 4, 'thorough': 16}
PROFILE = 'full'


ENUM_DEPTH = {'quick': 2, 'thorough': 3}


def plan(tier):
    return {'shards': SHARDS[tier]}


def nontrivial(node, m, cls):
    if progs.size(node) < 3:
        return False
    keys = ('op:concat', 'op:intersperse', 'op:zip', 'op:key_zip', 'slice:neg-or-repeat',
            'slice:negative-bound-or-step', 'src:len<=1', 'has-raise', 'op:catch', 'dup-keys')
    if any(k in cls for k in keys):
        return True
    for n in progs.walk(node):
        if n['op'] == 'batch' and ev(n['in']).n % n['n'] != 0:
            return True
    return False


def check_node(node):
    m = ev(node)
    ds, env = progcheck.build_checked(node)
    observe.check_iter(ds, m, node['op'])
    observe.check_repr(ds, node['op'])
    if m.indexable and m.sized and not m.has_raise and not m.int_taint and not m.unordered:
        # "iteration never consumes or alters a dataset" - also not after the dataset was used out of order
        # (back to front by index, which fills lazy caches in a non-sequential order)
        # on a FRESH build, so that lazy caches are filled back to front before the first iteration
        ds2, _ = progcheck.build_checked(node)
        for i in range(m.n - 1, -1, -1):
            try:
                ds2[i]
            except Exception:
                break
        got, exc, exhausted = observe.take(lambda: ds2, m.n + 3)
        observe.check_stream(got, exc, exhausted, m, node['op'], 'iter-after-random-access')
    if m.n >= 2 and progs.crc(progs.show(node)) % 2 == 0:
        # ... and not after a pass that was ABANDONED (a peek, a break, an error in the consumer's loop body): the
        # generator is closed at a yield, whatever a stage keeps between passes must not leak into the next one.
        # On a fresh build, once with one example taken and once with all but one.
        ds3, _ = progcheck.build_checked(node)
        for take_n in (1, m.n - 1):
            it = iter(ds3)
            try:
                for _ in range(take_n):
                    next(it)
            except observe.PASS_THROUGH:
                raise
            except BaseException as e:  # noqa: raising programs end early, that is part of the history too
                e.__traceback__ = None
            finally:
                if hasattr(it, 'close'):
                    it.close()
            got, exc, exhausted = observe.take(lambda: ds3, m.n + 3)
            observe.check_stream(got, exc, exhausted, m, node['op'], 'iter-after-abandoned-pass')
    return m


def check_program(node, rec=None):
    m = ev(node)
    try:
        check_node(node)
    except Violation as v:
        d = progcheck.diagnose(node, check_node)
        if d is not None:
            sub, v2 = d
            raise Violation(v2.sig, f'program: {progs.show(sub)}\n{v2.detail}')
        raise Violation(v.sig, f'program: {progs.show(node)}\n{v.detail}')
    if rec is not None:
        cls = progcheck.classes_of(node, m)
        rec.case({'program': progs.show(node), 'ast': node, 'model_len': m.n}, nontrivial(node, m, cls), cls,
                 size=progs.size(node))


def replay(case):
    progcheck.setup_process()
    check_program(case['ast'] if 'ast' in case else case)


def run_shard(tier, idx, nshards, rec, known):
    from ..common import seed
    out = progcheck.run(lambda node: check_program(node, rec), rec, known, PROFILE, N[tier],
                        seed() * 1000 + idx, shrink=True)
    if out.violation:
        case, sig, detail = out.violation
        out.violation = ({'ast': case, 'program': progs.show(case)}, sig, detail)
        return [out]
    # bounded-exhaustive part: every chain of <= ENUM_DEPTH[tier] stage templates over every small source
    return [out, progcheck.run_enum(lambda node: check_program(node, rec), rec, known, ENUM_DEPTH[tier], idx, nshards)]
