"""C03 - keys(), items() and key lookup are aligned with iteration order (at every stage of every program)."""
from .. import observe, progcheck, progs
from ..common import Violation, seed
from ..refmodel import ev

PID = 'C03'
RULE = ('Programs as in C01 with dict-backed sources over-weighted (unique keys, and duplicate keys across '
        'concatenated / interspersed / tiled parts); at the result AND every intermediate stage: keys() equals the '
        'reference key list (also for an empty selection), list(items()) equals zip(keys, values) with every example '
        'under its own key (examples are self-describing), ds[k] returns the stored example for every present key, '
        'and every absent key (fixed absent keys, a near miss, keys of sibling / upstream datasets that the '
        'selection dropped) raises and never returns. Stages that cannot pair keys must refuse items() loudly. '
        'Non-trivial: a keyed result with >=2 keys below a key-reordering or key-dropping stage, or an empty keyed '
        'selection, or duplicate keys; distinct by canonical JSON.')
ASSUMPTIONS = [
    'three-state key capability (DESIGN 2.2): below a key collision the documented "Keys are not unique" '
    'AssertionError is accepted for key operations that go through keys(); a wrong value never is',
    '"lookup error" is read behaviourally: any Exception, nothing returned (ItemsDataset/CacheDataset raise ValueError)',
    'FilterDataset / ReShuffle / LocalShuffle / Catch / Prefetch document no keys(); keys() must then refuse',
]
N = {'quick': 1200, 'thorough': 5000}
SHARDS = {'quick': 4, 'thorough': 16}
REORDER = {'slice', 'shuffle_once', 'sort', 'shard', 'filter', 'concat', 'intersperse', 'key_zip', 'catch', 'reshuffle',
           'local_shuffle', 'tile'}


ENUM_DEPTH = {'quick': 2, 'thorough': 3}


def plan(tier):
    return {'shards': SHARDS[tier]}


def all_source_keys(node):
    out = []
    for n in progs.walk(node):
        if n['op'] == 'dict':
            out.extend(n['keys'])
    return out


def frozen_view_check(ds, m, node):
    """copy(freeze=True) of a reshuffling pipeline is a fixed selection: its keys(), items() and iteration must stay
    aligned with each other - also after the original pipeline ran further epochs (history dependence)."""
    desc = f'program: {progs.show(node)}.copy(freeze=True)'
    try:
        F = ds.copy(freeze=True)
    except Exception as e:
        raise Violation('freeze-raised|' + node['op'], f'{desc}: {e!r}')
    pairs_by_key = {}
    for k, v in zip(m.keys, m.vals):
        pairs_by_key.setdefault(k, []).append(v)

    def snapshot(tag):
        try:
            items = list(F.items())
        except Exception as e:
            raise Violation('frozen-items-raised|' + node['op'], f'{desc} ({tag}): {e!r}')
        for pair in items:
            if not (isinstance(pair, tuple) and len(pair) == 2 and any(observe.same(pair[1], v)
                                                                      for v in pairs_by_key.get(pair[0], []))):
                raise Violation('frozen-items-pairing|' + node['op'],
                                f'{desc} ({tag}): items() yielded {pair!r}; examples of that key: '
                                f'{pairs_by_key.get(pair[0])}')
        try:
            ks = list(F.keys())
        except Exception:
            ks = None
        if ks is not None and ks != [k for k, _ in items]:
            raise Violation('frozen-keys-vs-items|' + node['op'],
                            f'{desc} ({tag}): keys() {ks} but items() keys {[k for k, _ in items]}')
        vals = list(F)
        if not observe.same_list(vals, [v for _, v in items]):
            raise Violation('frozen-iteration-vs-items|' + node['op'], f'{desc} ({tag}): {vals} vs {items}')
        return items
    first = snapshot('fresh')
    list(ds)
    ds.copy(freeze=True)
    second = snapshot('after another epoch of the original')
    if not observe.same_list(first, second):
        raise Violation('frozen-view-changed|' + node['op'], f'{desc}: {first} then {second}')


def check_program(node, rec=None):
    ds, env = progcheck.build_checked(node)
    siblings = sorted(set(all_source_keys(node)))
    for path, sub in sorted(progcheck.subnodes(node), key=lambda t: -len(t[0])):
        m = ev(sub)
        try:
            observe.check_keys(env.nodes[path], m, sub['op'], sibling_keys=siblings)
        except Violation as v:
            raise Violation(v.sig, f'program: {progs.show(sub)}\n{v.detail}')
    # history dependence: the stages above were observed (keys(), items(), lookups) - anything derived from them NOW
    # must still be right (stale lazily-filled key caches, shared index arrays, ...)
    for path, sub in sorted(progcheck.subnodes(node), key=lambda t: -len(t[0])):
        m = ev(sub)
        if not (m.indexable and m.sized) or m.has_raise or m.iter_taint or m.int_taint:
            continue
        base = env.nodes[path]
        lates = [({'op': 'slice', 'form': {'k': 'slice', 'a': 1, 'b': None, 'c': None}, 'in': sub}, lambda d: d[1:]),
                 ({'op': 'slice', 'form': {'k': 'slice', 'a': None, 'b': None, 'c': 2}, 'in': sub}, lambda d: d[::2]),
                 ({'op': 'copy', 'freeze': False, 'in': sub}, lambda d: d.copy())]
        for late_node, derive in lates:
            try:
                late = derive(base)
            except Exception as e:
                raise Violation(f'late-derivation-raised|{sub["op"]}', f'program: {progs.show(late_node)} (derived '
                                                                       f'after the stage was used): {e!r}')
            try:
                observe.check_keys(late, ev(late_node), 'late-' + sub['op'], sibling_keys=siblings)
                observe.check_iter(late, ev(late_node), 'late-' + sub['op'], passes=1, cycle=False)
            except Violation as v:
                raise Violation(v.sig, f'program: {progs.show(late_node)}, derived AFTER keys()/items()/lookups '
                                       f'were used on its input\n{v.detail}')
    m_root = ev(node)
    if m_root.unordered and m_root.keys is not None and m_root.cap_items == 'req' and not m_root.taint \
            and 'local_shuffle' not in progs.ops(node):
        frozen_view_check(ds, m_root, node)
    if rec is not None:
        m = ev(node)
        cls = progcheck.classes_of(node, m)
        keyed = m.keys is not None and m.cap_items != 'no'
        cls.add(f'caps:keys={m.cap_keys},items={m.cap_items},str={m.cap_str}')
        ops = set(progs.ops(node))
        nt = (keyed and len(m.keys) >= 2 and bool(ops & REORDER)) or (keyed and m.n == 0 and progs.size(node) >= 2) \
            or m.taint
        rec.case({'program': progs.show(node), 'ast': node, 'keys': m.keys}, nt, cls, size=progs.size(node))


def check_stamped_cache(case):
    """Below a cache sits a stage whose result is not reproducible (every call stamps its own number): whatever was
    stored for a key is THE example of that key - items() pairs every key with the very example that iteration,
    ds[key] and ds[i] deliver, in whichever order these are first asked."""
    import itertools
    import shutil
    import tempfile
    import lazy_dataset
    n = case['n']
    keys = [f'key{i}' for i in range(n)]
    counter = itertools.count(1)

    def stamp(x):
        return (x, next(counter))
    tmp = None
    ds = lazy_dataset.new({k: ('s', i) for i, k in enumerate(keys)}).map(stamp)
    if case['cache'] == 'disk':
        tmp = tempfile.mkdtemp(prefix='verif_c03_')
        ds = ds.diskcache(tmp + '/c', reuse=False, clear=True)
    else:
        ds = ds.cache(keep_mem_free='1 KB')
    top = ds.map(lambda x: ('above', x)) if case['above'] else ds
    unwrap = (lambda v: v[1]) if case['above'] else (lambda v: v)
    views = {}
    try:
        for what in case['order']:
            if what == 'items':
                got = list(top.items())
                if [k for k, _ in got] != keys:
                    raise Violation('stamped-cache-keys', f'{case}\nitems() keys {[k for k, _ in got]}')
                views['items'] = [unwrap(v) for _, v in got]
            elif what == 'iter':
                views['iter'] = [unwrap(v) for v in top]
            elif what == 'key':
                views['key'] = [unwrap(top[k]) for k in reversed(keys)][::-1]
            elif what == 'index':
                views['index'] = [unwrap(top[i]) for i in range(n)]
        names = list(views)
        for a, b in zip(names, names[1:]):
            if views[a] != views[b]:
                raise Violation(f'stamped-cache-disagree|{a}-vs-{b}',
                                f'{case}\n(order of first use: {case["order"]}) {a} delivers {views[a]}\n'
                                f'{b} delivers {views[b]}: one key, two different stored examples')
    finally:
        del ds, top
        if tmp:
            shutil.rmtree(tmp, ignore_errors=True)


def replay(case):
    progcheck.setup_process()
    if case.get('stamped'):
        check_stamped_cache(case)
        return
    if case.get('live_dict'):
        check_live_dict(case)
        return
    check_program(case['ast'])


def check_live_dict(case):
    """A raw DictDataset over a dict the caller keeps using: a key is taken out and put back (same size, other
    insertion order). keys(), iteration, items() and lookups stay aligned with each other."""
    from lazy_dataset import core
    n, top, which = case['n'], case['top'], case['which']
    keys = [f'k{i}' for i in range(n)]
    d = {k: ('s', i) for i, k in enumerate(keys)}
    ds = core.DictDataset(d)
    if top == 'map':
        ds = ds.map(lambda x: x)
    elif top == 'rev':
        ds = ds[::-1]
    elif top == 'items_first':
        list(ds.items())
    k = keys[which % n]
    d[k] = d.pop(k)  # re-inserted: now last in the dict's own order
    ks = list(ds.keys())
    vals = list(ds)
    items = list(ds.items())
    desc = f'{case}: keys() {ks}, iteration {vals}, items() {items}'
    if [kk for kk, _ in items] != ks or [v for _, v in items] != vals:
        raise Violation('items-misaligned|live-dict', desc)
    for kk, v in zip(ks, vals):
        if d[kk] != v or ds[kk] != v:
            raise Violation('keys-misaligned|live-dict', f'{desc}\nkey {kk!r} holds {d[kk]!r}, ds[key] {ds[kk]!r}')


def run_shard(tier, idx, nshards, rec, known):
    if idx == 0:
        from ..common import Outcome
        o0 = Outcome()
        for n in (2, 3, 4):
            for top in ('plain', 'map', 'rev', 'items_first'):
                for which in range(n):
                    case = {'live_dict': True, 'n': n, 'top': top, 'which': which}
                    try:
                        check_live_dict(case)
                    except Violation as v:
                        if known.match(v.sig):
                            continue
                        o0.violation = (case, v.sig, v.detail)
                        return [o0]
                    rec.case(case, True, ['live-dict', 'top:' + top], size=n)
    if idx == 1 % nshards:
        import itertools
        import shutil as _sh
        import types
        _sh.disk_usage = lambda p: types.SimpleNamespace(total=10 ** 13, used=0, free=10 ** 13)
        from ..common import Outcome
        o1 = Outcome()
        for cache in ('mem', 'disk'):
            for above in (False, True):
                for order in itertools.permutations(('items', 'iter', 'key', 'index'), 3):
                    case = {'stamped': True, 'n': 3, 'cache': cache, 'above': above, 'order': list(order)}
                    try:
                        check_stamped_cache(case)
                    except Violation as v:
                        if known.match(v.sig):
                            continue
                        o1.violation = (case, v.sig, v.detail)
                        return [o1]
                    rec.case(case, True, ['stamped-cache:' + cache], size=3)
    out = progcheck.run(lambda node: check_program(node, rec), rec, known, 'full', N[tier], seed() * 1000 + idx,
                        ctx_kw={'dict_weight': 5})
    if out.violation:
        case, sig, detail = out.violation
        out.violation = ({'ast': case, 'program': progs.show(case)}, sig, detail)
        return [out]
    # bounded-exhaustive part: every chain of <= ENUM_DEPTH[tier] stage templates over every small source
    return [out, progcheck.run_enum(lambda node: check_program(node, rec), rec, known, ENUM_DEPTH[tier], idx, nshards)]
