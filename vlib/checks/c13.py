"""C13 - explicit seeds reproduce orders; frozen copies stay frozen; copies are faithful."""
import numpy as np
from hypothesis import strategies as st

from .. import build as B
from .. import gen, observe, progcheck, progs, refmodel
from ..common import Outcome, Violation, drive, seed
from ..refmodel import Invalid, ev

PID = 'C13'
RULE = ('(1) Hypothesis: programs containing reshuffle / local shuffle / one-time shuffle stages at any depth (below '
        'map, filter, batch, concatenate, zip, items, prefetch, ...), explicit seeds, 3 epochs, the global numpy '
        'random state re-seeded differently before every epoch and every copy(). Oracle (differential, no model of '
        'the order): epoch-by-epoch equality of twin builds, of a build vs copy() of a fresh build, of a build vs '
        'the same build behind prefetch (1 worker, 2 workers where the frozen pipeline is indexable); a one-time '
        'shuffle and copy(freeze=True) of a reshuffle pipeline iterate in one fixed order across epochs, also while '
        'the original keeps iterating / freezing; ordered is False for every pipeline with an un-frozen per-epoch '
        'random stage. (2) vars() of one instance of EVERY Dataset subclass that defines copy() (enumerated from '
        'Dataset.__subclasses__(), non-default parameters) vs vars() of its copy. Non-trivial: a random stage below '
        '>=1 other stage and >=2 epochs compared; distinct by case JSON.')
ASSUMPTIONS = [
    'lazily memoised fields (_keys, _key_set) and iteration state (_permutation contents) are not configuration',
    'shared caches / profiling counters / random generators are compared by identity',
    'copy(freeze=True) is documented to affect ReShuffleDataset only; pipelines with a local shuffle or lazy apply '
    'are exempt from the "frozen" clause',
]
N = {'quick': 700, 'thorough': 5000}
EPOCHS = 3
RANDOM_OPS = {'reshuffle', 'local_shuffle', 'shuffle_once', 'apply'}


def plan(tier):
    return {'shards': 4 if tier == 'quick' else 16}


def epochs(ds, salt, n_epochs=EPOCHS):
    out = []
    for e in range(n_epochs):
        np.random.seed(1000 * salt + e)  # adversarial global state: differs between the runs that are compared
        got, exc, _ = observe.take(lambda: ds, 50000)
        if exc is not None:
            raise Violation('iteration-raised', observe.describe_exc(exc))
        out.append(got)
    return out


SHARE_RNG = [False]


def fresh(node):
    env = B.Env()
    env.share_rng = SHARE_RNG[0]
    return B.build(node, env)


def has_op(node, ops):
    return any(n['op'] in ops for n in progs.walk(node))


def shared_reshuffle(node):
    """One ReShuffleDataset OBJECT occurs several times in the pipeline (tile(r>=2) above a reshuffle)."""
    for n in progs.walk(node):
        if n['op'] == 'tile' and n['r'] >= 2 and has_op(n['in'], {'reshuffle'}):
            return True
        if n['op'] == 'concat' and n.get('share'):
            # tile(r) IS the concatenation of one object r times; listing the object twice by hand is the same thing
            seen = []
            for c in n['ins']:
                if c in seen and has_op(c, {'reshuffle'}):
                    return True
                seen.append(c)
    return False


def unfreeze(node):
    """copy(freeze=True) stages inside generated programs are turned into plain copies (freezing is tested apart)."""
    if node['op'] == 'copy' and node.get('freeze'):
        node = dict(node, freeze=False)
    if 'ins' in node:
        return dict(node, ins=[unfreeze(c) for c in node['ins']])
    if 'in' in node:
        return dict(node, **{'in': unfreeze(node['in'])})
    return node


def check(case):
    SHARE_RNG[0] = bool(case.get('share_rng'))
    try:
        return check_(case)
    finally:
        SHARE_RNG[0] = False


def check_(case):
    node = case['ast']
    desc = f'program: {progs.show(node)}' + (' (all random stages share one generator object)' if case.get('share_rng') else '')
    if ev(node).iter_taint:
        return []  # key iteration over duplicate keys may refuse (documented); nothing to compare
    np.random.seed(5)
    A = epochs(fresh(node), 1)
    np.random.seed(6)
    Bt = epochs(fresh(node), 2)
    if A != Bt:
        raise Violation('twin-builds-differ', f'{desc}\nbuild 1 epochs {A}\nbuild 2 epochs {Bt}')
    np.random.seed(7)
    C = epochs(fresh(node).copy(), 3)
    deferred = None
    if A != C:
        sig = 'copy-differs'
        v = Violation(sig, f'{desc}\nbuild epochs   {A}\ncopy() epochs  {C}')
        if not shared_reshuffle(node):
            raise v
        # known open finding K3: reported at the end, so that it does not hide the remaining sub-checks of this case
        deferred = Violation('copy-differs|shared-reshuffle-object', v.detail)
    np.random.seed(11)
    C3 = epochs(fresh(node).copy().copy().copy(), 5)
    if A != C3 and deferred is None:
        raise Violation('copy-differs|copy-of-copy', f'{desc}\nbuild epochs   {A}\ncopy().copy().copy() epochs  {C3}')
    m = ev(node)
    if case.get('prefetch'):
        w, b = case['prefetch']
        ok = w == 1 or (m.fidx and m.sized and not m.int_taint)
        if ok:
            np.random.seed(8)
            P = epochs(fresh(node).prefetch(w, b), 4)
            if A != P:
                raise Violation(f'prefetch-differs|workers={w}', f'{desc}\nplain epochs         {A}\n'
                                                                 f'prefetch({w},{b}) epochs {P}')
    def per_epoch_random(n):
        return n['op'] in ('reshuffle', 'local_shuffle') or (n['op'] == 'apply' and n['fn'] != 'map')

    def unfreezable(n):
        return n['op'] == 'local_shuffle' or (n['op'] == 'apply' and n['fn'] == 'local')
    per_epoch = any(per_epoch_random(n) for n in progs.walk(node))
    ds = fresh(node)
    try:
        ordered = ds.ordered
    except NotImplementedError:
        ordered = None
    if per_epoch and ordered is not False:
        raise Violation('ordered-not-false', f'{desc}\nordered == {ordered!r} for a pipeline that reshuffles per epoch')
    if per_epoch:
        # ... and stays so under every wrapper that does not fix the order (the flag is what cache / diskcache /
        # eager operations rely on)
        for name, wrap in (('cycle', lambda d: d.cycle()), ('catch', lambda d: d.catch()),
                           ('prefetch1', lambda d: d.prefetch(1, 2)), ('map', lambda d: d.map(lambda x: x)),
                           ('tile2', lambda d: d.tile(2)), ('cycle-map', lambda d: d.cycle().map(lambda x: x)),
                           ('bucket', lambda d: d.batch_dynamic_time_series_bucket(
                               batch_size=2, len_key=lambda x: 1, max_padding_rate=0.5)),
                           ('bucket-sorted', lambda d: d.batch_dynamic_time_series_bucket(
                               batch_size=2, len_key=lambda x: 1, max_padding_rate=0.5, sort_key=lambda x: 0)),
                           ('batch', lambda d: d.batch(2)), ('local-shuffle', lambda d: d.shuffle(True, buffer_size=2)),
                           ('filter', lambda d: d.filter(lambda x: True))):
            try:
                flag = wrap(ds).ordered
            except Exception:  # a wrapper may not apply to this pipeline, or may not define the flag
                continue
            if flag is not False:
                raise Violation(f'ordered-not-false|{name}', f'{desc}\n.{name} on top: ordered == {flag!r} for a '
                                                             f'pipeline that reshuffles per epoch')
    if not per_epoch:
        if len({repr(e) for e in A}) != 1:
            raise Violation('one-time-shuffle-not-fixed', f'{desc}\nepochs {A}')
    if per_epoch and not any(unfreezable(n) for n in progs.walk(node)):
        orig = fresh(node)
        np.random.seed(9)
        # "freeze" as callers spell it: True, 1, or a numpy bool (freeze = epoch > 0)
        flag = [True, 1, np.True_][progs.crc(progs.show(node)) % 3]
        F = orig.copy(freeze=flag)
        e1 = list(F)
        list(orig)  # the original keeps shuffling
        e2 = list(F)
        orig.copy(freeze=True)  # another freeze of the original
        np.random.seed(10)
        e3 = list(F)
        if not (e1 == e2 == e3):
            raise Violation('frozen-copy-changes', f'{desc}\nfrozen copy epochs {[e1, e2, e3]}')
        if sorted(map(repr, e1)) != sorted(map(repr, A[0])) and not has_op(node, {'filter'}):
            raise Violation('frozen-copy-content', f'{desc}\nfrozen {e1}\nepoch  {A[0]}')
        try:
            fo = F.ordered
        except NotImplementedError:
            fo = None
        if fo is False:
            raise Violation('frozen-copy-unordered', f'{desc}\ncopy(freeze=True).ordered == False')
    if deferred is not None:
        raise deferred
    return A


def check_long(n, kind, sd):
    """Twin builds of a LONG dataset (fast paths for large lengths), equally seeded: identical orders, also for the
    copy and for a second pair built later in the same process."""
    import lazy_dataset

    def rng():
        return np.random.RandomState(sd) if kind == 'rs' else np.random.default_rng(sd)

    def build(stage):
        ds = lazy_dataset.new(list(range(n)))
        if stage == 'once':
            return ds.shuffle(False, rng=rng())
        if stage == 'tile':
            return ds.shuffle(False, rng=rng())[:n // 2]  # a selection of a one-time shuffle
        return ds.shuffle(True, rng=rng())
    for stage in ('once', 'reshuffle', 'tile'):
        orders = []
        for twin in range(3):
            d = build(stage)
            if twin == 2:
                d = d.copy()
            orders.append([list(d) for _ in range(2)])
        if orders[0] != orders[1] or orders[0] != orders[2]:
            k = next(i for i in range(len(orders[0][0])) if len({o[0][i] for o in orders}) > 1 or
                     len({o[1][i] for o in orders}) > 1) if orders[0][0] != orders[1][0] or orders[0][0] != orders[2][0] \
                else None
            raise Violation(f'twin-differs|long-{stage}',
                            f'n={n} generator={kind} seed={sd} stage={stage}: three identically built, equally seeded '
                            f'pipelines (the third one copied) iterate in different orders; first epochs start '
                            f'{[o[0][:8] for o in orders]} (first difference at position {k})')
        if sorted(orders[0][0]) != list(range(n)) and stage != 'tile':
            raise Violation(f'twin-not-a-permutation|long-{stage}', f'n={n} generator={kind} seed={sd}')


def check_pool_prefetch(backend, sd, n=7):
    """A seeded per-epoch reshuffle behind a prefetch on every backend (threads and the four process pools): epoch by
    epoch the order of the equally seeded plain pipeline; the same for a copy() of a fresh build."""
    import lazy_dataset

    def plain():
        return lazy_dataset.new(list(range(n))).shuffle(True, rng=np.random.RandomState(sd))

    def behind():
        return plain().prefetch(2, 2, backend=backend)
    p = plain()
    want = [list(p) for _ in range(3)]
    for what, ds in (('prefetch', behind()), ('copy of prefetch', behind().copy())):
        got = []
        for _ in range(3):
            vals, exc, _ = observe.take(lambda: ds, n + 3)
            if exc is not None:
                raise Violation(f'prefetch-raised|{backend}', f'backend={backend} seed={sd}: {observe.describe_exc(exc)}')
            got.append(vals)
        if got != want:
            raise Violation(f'prefetch-differs|pool-{backend}',
                            f'new(range({n})).shuffle(True, rng=RandomState({sd})) iterates {want} over three epochs; '
                            f'the equally seeded pipeline behind .prefetch(2, 2, backend={backend!r}) ({what}) '
                            f'iterates {got}')


def replay(case):
    progcheck.setup_process()
    if case.get('mode') == 'pool':
        check_pool_prefetch(case['backend'], case['seed'])
        return
    if case.get('mode') == 'long':
        check_long(case['n'], case['kind'], case['seed'])
        return
    if case.get('mode') == 'vars':
        check_vars(case['cls'])
        check_freeze_propagation()
        check_live_containers()
    else:
        refmodel.STRICT_UNORDERED[0] = False
        try:
            check(case)
        finally:
            refmodel.STRICT_UNORDERED[0] = True


# ---------------------------------------------------------------------------------------------------------------------
# vars() of every stage vs its copy

EXCLUDE = {'_keys', '_key_set', '_permutation'}
IDENTITY = {'_cache', 'time', 'hit_count', 'rng', 'map_function', 'filter_function', 'apply_function', 'sort_key',
            'bucket_cls', 'examples', 'exceptions', 'order'}


def instances(tmpdir):
    import lazy_dataset
    from lazy_dataset import core
    rs = np.random.RandomState(3)
    d = lazy_dataset.new({'a': 1, 'b': 2, 'c': 3, 'd': 4}, name='nm')
    lst = lazy_dataset.new([1, 2, 3, 4], name='ln')
    f = lambda x: x  # noqa
    return {
        'DictDataset': core.DictDataset({'a': 1, 'b': 2}, name='dn'),
        'ListDataset': core.ListDataset([1, 2, 3], name='ln'),
        'MapDataset': d.map(f),
        'ParMapDataset': d.map(f, num_workers=2, buffer_size=7, backend='t'),
        'ApplyDataset': d.apply(lambda ds: ds.map(f), lazy=True),
        'CatchExceptionDataset': d.catch((ValueError, KeyError), warn=True),
        'PrefetchDataset': d.prefetch(2, 5, backend='t', catch_filter_exception=(ValueError,)),
        'ReShuffleDataset': d.shuffle(True, rng=rs),
        'LocalShuffleDataset': d.shuffle(True, rng=np.random.default_rng(5), buffer_size=7),
        'SliceDataset': d[[2, 0]],
        'FilterDataset': d.filter(f),
        'ConcatenateDataset': d.concatenate(lst),
        'IntersperseDataset': d.intersperse(lst),
        'ZipDataset': d.zip(lst),
        'KeyZipDataset': d.key_zip(d.map(f)),
        'ItemsDataset': d.items(),
        'BatchDataset': d.batch(3, drop_last=True),
        'UnbatchDataset': d.batch(2).unbatch(),
        'DynamicBucketDataset': d.batch_dynamic_time_series_bucket(
            batch_size=3, len_key=lambda x: x, max_padding_rate=0.3, max_total_size=50, expiration=7,
            max_buffered_examples=9, drop_incomplete=True, sort_key=lambda x: x, reverse_sort=True),
        'CacheDataset': d.cache(keep_mem_free='1 GB'),
        'DiskCacheDataset': d.diskcache(tmpdir, reuse=True, clear=False),
        'ProfilingDataset': core.ProfilingDataset(d.map(f)),
    }


def check_vars(only=None):
    import tempfile
    import lazy_dataset
    from lazy_dataset import core

    def subclasses(c):
        out = []
        for s in c.__subclasses__():
            out.append(s)
            out.extend(subclasses(s))
        return out
    checked = []
    with tempfile.TemporaryDirectory(prefix='verif_c13_') as td:
        inst = instances(td)
        for cls in subclasses(core.Dataset):
            if cls.__module__ != core.__name__:
                continue
            if 'copy' not in {k for c in cls.__mro__[:-2] for k in vars(c)}:
                continue  # defines no copy (CycleDataset)
            name = cls.__name__
            if only and name != only:
                continue
            if name not in inst:
                raise RuntimeError(f'harness: no instance prepared for Dataset subclass {name} (new stage?)')
            o = inst[name]
            if type(o) is not cls:
                raise RuntimeError(f'harness: instance for {name} is a {type(o).__name__}')
            for freeze in (False, True):
                if freeze and name in ('ReShuffleDataset', 'ApplyDataset'):
                    continue  # freezing replaces these stages by design
                c = o.copy(freeze=freeze)
                if type(c) is not cls:
                    raise Violation(f'copy-type|{name}', f'copy(freeze={freeze}) of {name} is a {type(c).__name__}')
                # a user subclass that inherits copy(): the copy is of the subclass (every stage builds its copy with
                # self.__class__), otherwise the overrides are lost behind prefetch
                sub = type(name + 'UserSubclass', (cls,), {})
                o.__class__ = sub
                try:
                    cs = o.copy(freeze=freeze)
                finally:
                    o.__class__ = cls
                if type(cs) is not sub:
                    raise Violation(f'copy-type|{name}.subclass',
                                    f'copy(freeze={freeze}) of an instance of a subclass of {name} is a '
                                    f'{type(cs).__name__}: overridden methods are lost')
                del cs
                vo, vc = vars(o), vars(c)
                ko, kc = set(vo) - EXCLUDE, set(vc) - EXCLUDE
                if ko != kc:
                    raise Violation(f'copy-attributes|{name}', f'{name}.copy(freeze={freeze}): attributes {sorted(ko)} '
                                                               f'vs {sorted(kc)}')
                for k in sorted(ko):
                    a, b = vo[k], vc[k]
                    if isinstance(a, lazy_dataset.Dataset) or (
                            isinstance(a, (list, tuple)) and a and all(isinstance(x, lazy_dataset.Dataset) for x in a)):
                        continue
                    if k in IDENTITY:
                        same = a is b or (k in ('exceptions', 'order', 'examples') and a == b)
                    elif isinstance(a, np.ndarray):
                        same = isinstance(b, np.ndarray) and a.dtype == b.dtype and np.array_equal(a, b)
                    else:
                        same = type(a) is type(b) and a == b
                    if not same:
                        raise Violation(f'copy-parameter|{name}.{k}',
                                        f'{name}.copy(freeze={freeze}): {k} == {b!r}, original {a!r}')
            checked.append(name)
            del o
        # parameter VALUES that are falsy: backend=False is the documented "no pool" mode of a parallel map
        serial = inst['DictDataset'].map(lambda x: x, num_workers=1, buffer_size=2, backend=False)
        for freeze in (False, True):
            cs = serial.copy(freeze=freeze)
            for k in ('backend', 'num_workers', 'buffer_size'):
                if vars(cs).get(k) != vars(serial).get(k) or type(vars(cs).get(k)) is not type(vars(serial).get(k)):
                    raise Violation(f'copy-parameter|ParMapDataset.{k}',
                                    f'ParMapDataset(backend=False).copy(freeze={freeze}): {k} == {vars(cs).get(k)!r}, '
                                    f'original {vars(serial).get(k)!r}')
        # ... the legal value 0 of an optional limit
        zero = inst['DictDataset'].batch_dynamic_time_series_bucket(
            batch_size=3, len_key=lambda x: x, max_padding_rate=0.3, expiration=0, max_buffered_examples=0)
        for freeze in (False, True):
            cz = zero.copy(freeze=freeze)
            for k in ('expiration', 'max_buffered_examples', 'drop_incomplete', 'reverse_sort'):
                if vars(cz).get(k) != vars(zero).get(k) or type(vars(cz).get(k)) is not type(vars(zero).get(k)):
                    raise Violation(f'copy-parameter|DynamicBucketDataset.{k}',
                                    f'DynamicBucketDataset(expiration=0, max_buffered_examples=0).copy(freeze={freeze}): '
                                    f'{k} == {vars(cz).get(k)!r}, original {vars(zero).get(k)!r}')
        inst.clear()
    return checked


def check_live_containers():
    """Raw List / Dict datasets share the caller's container; a copy() shares it as well: after a size-preserving
    change of the container (elements swapped / replaced, a key taken out and put back) original and copy still agree."""
    from lazy_dataset import core
    checked = []
    for freeze in (False, True):
        lst = [('s', i) for i in range(4)]
        o = core.ListDataset(lst)
        c = o.copy(freeze=freeze)
        lst[0], lst[1] = lst[1], lst[0]
        lst[3] = ('s', 'replaced')
        if list(o) != list(c) or len(o) != len(c) or [o[i] for i in range(4)] != [c[i] for i in range(4)]:
            raise Violation('copy-differs|ListDataset.live-container',
                            f'copy(freeze={freeze}) of a ListDataset, then the list was changed: original {list(o)}, '
                            f'copy {list(c)}')
        d = {f'k{i}': ('s', i) for i in range(4)}
        o = core.DictDataset(d)
        c = o.copy(freeze=freeze)
        d['k1'] = d.pop('k1')
        d['k2'] = ('s', 'replaced')
        if list(o) != list(c) or list(o.keys()) != list(c.keys()) or list(o.items()) != list(c.items()):
            raise Violation('copy-differs|DictDataset.live-container',
                            f'copy(freeze={freeze}) of a DictDataset, then a key was re-inserted: original '
                            f'{list(o.items())}, copy {list(c.items())}')
        # ... and the other order: the container changes first, the copy is taken afterwards
        d = {f'k{i}': ('s', i) for i in range(4)}
        o = core.DictDataset(d)
        d['k0'] = d.pop('k0')
        c = o.copy(freeze=freeze)
        if list(o) != list(c) or list(o.keys()) != list(c.keys()) or list(o.items()) != list(c.items()):
            raise Violation('copy-differs|DictDataset.live-container',
                            f'a key of the dict was re-inserted, then copy(freeze={freeze}): original '
                            f'{list(o.items())}, copy {list(c.items())}')
        checked.append(f'live-containers-freeze-{freeze}')
    return checked


def check_freeze_propagation():
    """copy(freeze=True) of EVERY stage class above a per-epoch reshuffle must iterate in one fixed order."""
    import lazy_dataset
    from lazy_dataset import core
    f = lambda x: x  # noqa
    checked = []

    def rs(seed_):
        return lazy_dataset.new({k: i for i, k in enumerate('abcdefgh')}).shuffle(True, rng=np.random.RandomState(seed_))
    stages = {
        'MapDataset': lambda: rs(1).map(f),
        'ParMapDataset': lambda: rs(2).map(f, num_workers=2, buffer_size=3),
        'FilterDataset': lambda: rs(3).filter(lambda x: x != 3),
        'ConcatenateDataset': lambda: rs(4).concatenate(lazy_dataset.new([100, 101])),
        'ZipDataset': lambda: lazy_dataset.new(list(range(8))).zip(rs(5)),
        'ItemsDataset': lambda: rs(6).items(),
        'BatchDataset': lambda: rs(7).batch(3),
        'UnbatchDataset': lambda: rs(8).batch(3).unbatch(),
        'DynamicBucketDataset': lambda: rs(9).batch_dynamic_time_series_bucket(
            batch_size=2, len_key=lambda x: x + 1, max_padding_rate=0.9),
        'PrefetchDataset': lambda: rs(10).prefetch(1, 2),
        'PrefetchDataset-2-workers': lambda: rs(16).map(f).prefetch(2, 3),
        'PrefetchDataset-thread-backend': lambda: rs(17).prefetch(3, 3, backend='t').map(f),
        'CatchExceptionDataset': lambda: rs(11).map(f).catch(),
        'CacheDataset-eager-free': lambda: rs(12).map(f).items(),
        'ApplyDataset': lambda: rs(13).apply(lambda d: d.map(f), lazy=True),
        'ProfilingDataset': lambda: core.ProfilingDataset(rs(14).map(f)),
        'LocalShuffle-below-map': lambda: rs(15).map(f).map(f),
    }
    for name, mk in stages.items():
        ds = mk()
        F = ds.copy(freeze=[True, np.True_, 1][len(checked) % 3])
        np.random.seed(1)
        e1 = list(F)
        list(ds)
        np.random.seed(2)
        e2 = list(F)
        e3 = list(F)
        if not (e1 == e2 == e3):
            raise Violation(f'freeze-not-propagated|{name}',
                            f'copy(freeze=True) of a {name} above a per-epoch reshuffle iterates as {e1}, {e2}, {e3}')
        checked.append(name)
    return checked


@st.composite
def st_case(draw):
    refmodel.STRICT_UNORDERED[0] = False
    try:
        ctx = gen.Ctx()
        src = draw(gen.st_source(ctx, min_n=2))
        allowed = {'map', 'filter_lazy', 'slice', 'batch', 'items', 'concat', 'zip', 'copy', 'frag', 'unbatch',
                   'cache_lazy', 'tile'}
        below = draw(gen.st_program(ctx, allowed - {'copy', 'unbatch', 'frag', 'filter_lazy'}, max_stages=2, source=src))
        mb = ev(below)
        if not (mb.indexable and mb.sized) or mb.n < 2:
            below = src
        rnd = draw(st.sampled_from(['reshuffle', 'reshuffle', 'local_shuffle', 'shuffle_once', 'apply']))
        rk = draw(st.sampled_from(['rs', 'rs', 'gen']))
        if rnd == 'local_shuffle':
            node = {'op': 'local_shuffle', 'buffer': draw(st.integers(1, ev(below).n + 1)),
                    'seed': draw(st.integers(0, 500)), 'rng': rk, 'in': below}
        elif rnd == 'apply':
            node = {'op': 'apply', 'fn': draw(st.sampled_from(['shuffle', 'shuffle', 'local', 'map'])),
                    'seed': draw(st.integers(0, 500)), 'rng': rk, 'in': below}
        elif rnd == 'reshuffle':
            node = {'op': rnd, 'seed': draw(st.integers(0, 500)), 'rng': rk, 'in': below}
        else:
            node = {'op': rnd, 'seed': draw(st.integers(0, 500)), 'in': below}
        above_ops = {'map', 'filter_lazy', 'batch', 'items', 'concat', 'copy', 'frag', 'tile', 'zip', 'apply'}
        if rnd == 'shuffle_once':
            above_ops |= {'slice', 'cache_lazy', 'reshuffle', 'local_shuffle'}
        node = draw(gen.st_program(ctx, above_ops, max_stages=3, source=node))
        try:
            ev(node)
        except Invalid:
            node = {'op': 'map', 'fn': 0, 'in': {'op': 'reshuffle', 'seed': 1, 'in': src}}
        case = {'ast': unfreeze(node)}
        if draw(st.integers(0, 3)) == 0:
            case['share_rng'] = True
        if draw(st.booleans()):
            w = draw(st.integers(1, 3))
            case['prefetch'] = [w, draw(st.integers(w, 4))]
        return case
    finally:
        refmodel.STRICT_UNORDERED[0] = True


def run_shard(tier, idx, nshards, rec, known):
    progcheck.setup_process()
    outs = []
    if idx == 0:
        o = Outcome()
        try:
            names = check_vars()
            for nm in names:
                rec.case({'mode': 'vars', 'cls': nm}, True, ['vars:' + nm])
            for nm in check_freeze_propagation():
                rec.case({'mode': 'freeze', 'cls': nm}, True, ['freeze:' + nm])
            for nm in check_live_containers():
                rec.case({'mode': 'live', 'cls': nm}, True, ['live:' + nm])
        except Violation as v:
            if not known.match(v.sig):
                o.violation = ({'mode': 'vars', 'cls': v.sig.split('|')[1].split('.')[0] if 'copy' in v.sig
                                else None}, v.sig, v.detail)
        outs.append(o)
    if idx == 2 % nshards:
        o = Outcome()
        for be in ('t', 'thread', 'mp', 'dill_mp', 'multiprocessing', 'concurrent_mp'):
            for sd in (0, 1):
                case = {'mode': 'pool', 'backend': be, 'seed': sd}
                try:
                    check_pool_prefetch(be, sd)
                except Violation as v:
                    if not known.match(v.sig):
                        o.violation = (case, v.sig, v.detail)
                        break
                rec.case(case, True, ['pool-prefetch:' + be], size=7)
            if o.violation:
                break
        outs.append(o)
    if idx == 1 % nshards:
        o = Outcome()
        for n in (1000, 1024, 1025, 4096, 70000):
            for kind in ('rs', 'gen'):
                case = {'mode': 'long', 'n': n, 'kind': kind, 'seed': 3}
                try:
                    check_long(n, kind, 3)
                except Violation as v:
                    if not known.match(v.sig):
                        o.violation = (case, v.sig, v.detail)
                        break
                rec.case(case, True, ['long-twin'], size=n)
            if o.violation:
                break
        outs.append(o)

    def one(case):
        refmodel.STRICT_UNORDERED[0] = False
        try:
            A = check(case)
            node = case['ast']
            depth_above = 0
            n = node
            while n['op'] not in RANDOM_OPS and 'in' in n:
                depth_above += 1
                n = n['in']
            cls = {'op:' + o for o in progs.ops(node)}
            if case.get('prefetch'):
                cls.add(f'prefetch-workers:{case["prefetch"][0]}')
            if case.get('share_rng'):
                cls.add('shared-generator-object')
            rec.case({'program': progs.show(node), 'prefetch': case.get('prefetch'), 'ast': node,
                      'share_rng': bool(case.get('share_rng')),
                      'epochs_differ': len({repr(e) for e in A}) > 1},
                     progs.size(node) >= 3 and len(A) >= 2, cls, size=progs.size(node))
        finally:
            refmodel.STRICT_UNORDERED[0] = True
    outs.append(drive(one, st_case(), N[tier], rec, known, seed() * 1000 + idx))
    return outs
