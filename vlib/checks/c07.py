"""C07 - prefetch read-ahead is bounded by the buffer size (invariant over the totally ordered event log)."""
from .. import sched_engine as E
from ..common import seed
from . import sched_common as SC

PID = 'C07'
RULE = ('C04 workloads with n well above the buffer (up to 5*buffer+7), consumers that pause until every background '
        'thread is blocked at drawn positions, all schedules. Oracle at EVERY event of the totally ordered log: '
        'pulled - handed <= buffer_size + 2, and on pool paths started - handed <= buffer_size (handed counts '
        'next() returning to the consumer). Non-trivial: the run reached pulled - handed >= buffer_size; distinct '
        'by (workload, thread sequence hash).')
ASSUMPTIONS = [
    'on the single-thread path the mapped function runs inside the pulled source, so only the pull bound applies',
    'with catch_filter_exception the workloads contain no failing example, so handed == consumed',
]
N = {'quick': 800, 'thorough': 8000}
SHARDS = {'quick': 4, 'thorough': 16}


def plan(tier):
    return {'shards': SHARDS[tier]}


def judge(tr):
    E.judge_termination(tr)
    E.judge_readahead(tr)
    E.judge_values(tr, check_len=False)


def nontrivial(case, tr):
    mp, ms = E.readahead_profile(tr)
    return mp >= case['buffer']


replay = SC.replay_with(judge)


def run_shard(tier, idx, nshards, rec, known):
    return [SC.run_profile('readahead', judge, nontrivial, rec, known, N[tier], seed() * 1000 + idx)]
