"""C07 - prefetch read-ahead is bounded by the buffer size (invariant over the totally ordered event log)."""
from .. import sched_engine as E
from ..common import seed
from . import sched_common as SC

PID = 'C07'
RULE = ('C04 workloads with n well above the buffer (up to 5*buffer+7), consumers that pause until every background '
        'thread is blocked at drawn positions, all schedules. Oracle at EVERY event of the totally ordered log: '
        'pulled - handed <= buffer_size + 2, and on pool paths started - handed <= buffer_size (handed counts '
        'next() returning to the consumer). Non-trivial: the run reached pulled - handed >= buffer_size; distinct '
        'by (workload, thread sequence hash).')
ASSUMPTIONS = [
    'real pools: the marker log is appended with O_APPEND by workers and consumer; it can only under-report read-ahead',
    'on the single-thread path the mapped function runs inside the pulled source, so only the pull bound applies',
    'with catch_filter_exception the workloads contain no failing example, so handed == consumed',
]
N = {'quick': 800, 'thorough': 8000}
SHARDS = {'quick': 4, 'thorough': 16}


def plan(tier):
    return {'shards': SHARDS[tier]}


def judge(tr):
    E.judge_termination(tr)
    E.judge_readahead(tr)
    E.judge_values(tr, check_len=False)


def nontrivial(case, tr):
    mp, ms = E.readahead_profile(tr)
    return mp >= case['buffer']


replay = SC.replay_with(judge)


POOL_RUNS = {'quick': 10, 'thorough': 150}


def big_buffer_cases(tier):
    """Buffers that are large compared with the worker count (what a throughput-tuned loader uses): the bound is the
    buffer size in EXAMPLES, however the work is packaged. The consumer pauses, so the pipeline runs as far ahead as it
    will."""
    out = []
    for inp in ('list', 'tuple'):
        for w, b in ((2, 2), (3, 4)):
            out.append({'kind': 'lpm', 'n': 40, 'workers': w, 'buffer': b, 'input_as': inp, 'pauses': [0, 1, 5],
                        'sched': {'mode': 'list', 'choices': []}})
    for kind, w, b in (('pf', 2, 64), ('pf', 2, 128), ('pf', 3, 100), ('pm', 2, 64), ('lpm', 2, 70), ('pf', 1, 40),
                       ('stp', 1, 33)):
        n = 3 * b + 5 if tier == 'quick' else 5 * b + 7
        for sch in ({'mode': 'list', 'choices': []}, {'mode': 'prng', 'seed': 11, 'spread': 2}):
            out.append({'kind': kind, 'n': n, 'workers': w, 'buffer': b, 'pauses': [0, 1, b // 2, b + 3], 'sched': sch})
    return out


def run_shard(tier, idx, nshards, rec, known):
    outs = [SC.run_profile('readahead', judge, nontrivial, rec, known, N[tier], seed() * 1000 + idx)]
    if not outs[0].violation:
        from ..common import Outcome, Violation
        o = Outcome()
        for j, case in enumerate(big_buffer_cases(tier)):
            if j % nshards != idx:
                continue
            tr = E.run_case(case)
            try:
                judge(tr)
            except Violation as v:
                if known.match(v.sig):
                    continue
                o.violation = (case, v.sig, v.detail)
                break
            rec.case(SC.summarise(case, tr), nontrivial(case, tr), SC.classes(case, tr) | {'big-buffer'},
                     size=case['n'])
        outs.append(o)
    if idx == 0 and not outs[0].violation:
        # part "pools": started - handed <= buffer_size over the append-only marker log of the five real backends
        outs.append(SC.run_pools('readahead', rec, known, POOL_RUNS[tier], seed() * 1000 + 999))
    return outs
