"""C06 - errors in background work surface at the right position, never swallowed."""
from .. import sched_engine as E
from ..common import seed
from . import sched_common as SC

PID = 'C06'
LEVEL = 'fault_enumeration'
RULE = ('C04 workloads x non-empty sets of failing positions (source iterator or mapped function) x exception type '
        '(VErrA, VErrB<VErrA, VErrC, VBase(BaseException)) x catch_filter_exception (off, a type, a tuple) x '
        'schedule. Oracle: delivered == sequential prefix up to the first failing position, then the SAME exception '
        'object; with catching exactly the positions raising a selected type are dropped; never a silent stop, a '
        'reordering or a deadlock. Non-trivial: first failing position >=1, or >=2 failing positions, or an '
        'exception type outside the caught set; distinct by (workload, thread sequence hash).')
ASSUMPTIONS = [
    'schedules and executor model as in C04',
    'identity of the exception object is required on thread paths; process pools compare type and args (part pools)',
]
N = {'quick': 1500, 'thorough': 12000}
SHARDS = {'quick': 4, 'thorough': 16}


def plan(tier):
    return {'shards': SHARDS[tier]}


def judge(tr):
    E.judge_termination(tr)
    E.judge_values(tr, check_len=False)


def nontrivial(case, tr):
    fails = sorted(int(k) for k in list(case.get('src_fail', {})) + list(case.get('fn_fail', {})))
    if not fails:
        return False
    _, pos, ename, _ = E.expected_of(case)
    return fails[0] >= 1 or len(fails) >= 2 or (case.get('catch', False) is not False and ename is not None)


replay = SC.replay_with(judge)


POOL_RUNS = {'quick': 20, 'thorough': 400}


def run_shard(tier, idx, nshards, rec, known):
    outs = [SC.run_profile('fault', judge, nontrivial, rec, known, N[tier], seed() * 1000 + idx)]
    if not outs[0].violation:
        # part "dfs": every schedule with a bounded number of preemptions for small workloads (exhaustive)
        outs.append(SC.run_dfs(SC.dfs_workloads('fault', tier), judge, nontrivial, rec, known, idx, nshards))
    if idx == 0 and not any(o.violation for o in outs):
        # part "pools": the five real backends (threads and process pools) with delay tables
        outs.append(SC.run_pools('fault', rec, known, POOL_RUNS[tier], seed() * 1000 + 999))
    return outs
