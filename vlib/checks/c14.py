"""C14 - exception-based filtering drops exactly the failing examples."""
import itertools

from hypothesis import strategies as st

from .. import gen, observe, progcheck, progs
from ..common import Outcome, Violation, drive, seed
from ..refmodel import Invalid, ev

PID = 'C14'
LEVEL = 'fault_enumeration'
RULE = ('(1) bounded-exhaustive: sources of n <= 5 (quick 4) examples (list and dict) x EVERY subset of failing '
        'positions x raised type (FilterException, VErrA, VErrB<VErrA, VErrC) x catch set (default, VErrA, (VErrA, '
        'VErrC), Exception) x pipeline shape (raising map directly below catch, below a map, below a reversing '
        'slice, below a batch, two-stage chain), observed by value and by items() iteration; (2) Hypothesis: C01 '
        'programs (indexable alphabet) with raising maps at a drawn depth below catch(E); (3) three-way agreement of '
        'filter(p), filter(p, lazy=False) and map(raise FilterException unless p).catch() on generated programs. '
        'Oracle: reference list without the Raise elements the catch set covers; a foreign Raise ends the '
        'iteration at its position with that exception (type and args). Non-trivial: >=1 failing and >=1 surviving '
        'position, or a failing first/last position, or a foreign exception; distinct by case JSON.')
ASSUMPTIONS = [
    'lists of exception types are not generated (the statement says single type, tuple, subclass)',
    'reference interpreter as in C01',
]
N = {'quick': 600, 'thorough': 4000}
SHAPES = ['direct', 'map_above', 'rev_slice', 'batch2', 'chain', 'items_below', 'items_map', 'concat_below', 'copied',
          'copied_frozen', 'warn', 'list_zip_warn', 'cache_below', 'zip_below', 'warn_payload']
# incl. exceptions from the OSError family (a missing file is THE everyday failure of a loading function) and
# NotImplementedError (which the library itself uses for "items() not defined")
RAISED = ['FilterException', 'VErrA', 'VErrB', 'VErrC', 'ValueError', 'IndexError', 'VBase', 'FileNotFoundError',
          'NotImplementedError', 'VCustomInit', 'VChained', 'StopIteration']  # StopIteration: only under a catch set that covers it (PEP 479
#                                                    turns an UNCAUGHT one inside a generator into RuntimeError)
SPECS = [None, 'VErrA', ['VErrA', 'VErrC'], 'Exception', 'ValueError', 'LookupError', ['KeyError', 'VErrC'], [],
         ['VBase', 'VErrA'], 'OSError', 'StopIteration']


def plan(tier):
    return {'shards': 4 if tier == 'quick' else 16, 'exhaustive': True}


def make(kind, n, fail, shape, spec):
    if kind == 'list':
        src = {'op': 'list', 'id': 1, 'n': n, 'mode': 'pickle', 'dup': False}
        fm = {str(p): e for p, e in fail.items()}
    else:
        keys = progs.KEY_ALPHABET[:n]
        src = {'op': 'dict', 'id': 1, 'keys': keys, 'mode': 'pickle'}
        fm = {keys[p]: e for p, e in fail.items()}
    node = {'op': 'boomset', 'fail': fm, 'fn': 0, 'in': src}
    if shape == 'map_above':
        node = {'op': 'map', 'fn': 1, 'in': node}
    elif shape == 'rev_slice':
        node = {'op': 'slice', 'form': {'k': 'slice', 'a': None, 'b': None, 'c': -1}, 'in': node}
    elif shape == 'batch2':
        node = {'op': 'batch', 'n': 2, 'drop_last': False, 'in': node}
    elif shape == 'chain':
        node = {'op': 'boomset', 'fail': {}, 'fn': 2, 'in': {'op': 'map', 'fn': 3, 'in': node}}
    elif shape == 'items_below':
        if kind != 'dict':
            return None
        node = {'op': 'items', 'in': node}
    elif shape == 'concat_below':
        if kind != 'dict':
            return None
        node = {'op': 'concat', 'how': 'method',
                'ins': [node, {'op': 'dict', 'id': 6, 'keys': ['y', 'z'], 'mode': 'pickle'}]}
    elif shape == 'items_map':
        if kind != 'dict':
            return None
        node = {'op': 'map', 'fn': 2, 'in': {'op': 'items', 'in': node}}
    elif shape == 'zip_below':
        if kind != 'list':
            return None
        node = {'op': 'zip', 'how': 'method', 'ins': [node, {'op': 'list', 'id': 7, 'n': n, 'mode': 'pickle',
                                                              'dup': False}]}
    elif shape == 'cache_below':
        node = {'op': 'cache', 'lazy': True, 'in': node}  # a memory cache between the failing stage and the catch
    out = {'op': 'catch', 'exc': spec, 'in': node}
    if shape == 'copied':
        out = {'op': 'copy', 'freeze': False, 'in': out}
    elif shape == 'copied_frozen':
        out = {'op': 'copy', 'freeze': True, 'in': out}
    elif shape == 'warn':
        out['warn'] = True
        # the warning text is built from the exception: also from one that was raised without arguments
        inner = out['in']
        if inner['op'] == 'boomset':
            inner['noargs'] = True
    elif shape == 'warn_payload':
        out['warn'] = True
        inner = out['in']
        if inner['op'] == 'boomset':
            inner['noargs'] = 'unhashable'  # the caught exceptions carry an unhashable argument
    elif shape == 'list_zip_warn':
        out = {'op': 'catch', 'exc': spec, 'warn': True,
               'in': {'op': 'zip', 'how': 'method', 'ins': [node, {'op': 'list', 'id': 5, 'n': n, 'mode': 'pickle',
                                                                     'dup': False}]}}
    return out


def check_program(node):
    m = ev(node)
    ds, env = progcheck.build_checked(node)
    tag = node['op']
    try:
        observe.check_iter(ds, m, tag, cycle=False)
        observe.check_keys(ds, m, tag)
    except Violation as v:
        raise Violation(v.sig, f'program: {progs.show(node)}\n{v.detail}')
    return m


def check_reshuffled(kind, n, fail, spec, seed_):
    """source -> per-epoch reshuffle -> raising map -> catch(E covering every raised type): every epoch delivers
    exactly the surviving examples (as a multiset) - what is dropped must not depend on earlier epochs."""
    node = make(kind, n, fail, 'direct', spec)
    boom = node['in']
    boom['in'] = {'op': 'reshuffle', 'seed': seed_, 'in': boom['in']}
    ds, _ = progcheck.build_checked(node)
    base = {'op': 'boomset', 'fail': boom['fail'], 'fn': 0, 'in': boom['in']['in']}
    want = sorted(repr(v) for v in ev({'op': 'catch', 'exc': spec, 'in': base}).vals)
    for epoch in range(3):
        got, exc, _ = observe.take(lambda: ds, 50)
        if exc is not None or sorted(map(repr, got)) != want:
            raise Violation('catch-over-reshuffle-epoch', f'program: {progs.show(node)} epoch {epoch}\ngot {got} '
                                                          f'({exc!r})\nexpected a permutation of {want}')


def three_way(node, mm, r, as_int=False):
    """filter(p) / filter(p, lazy=False) / map(raise unless p).catch() select the same examples."""
    # as_int: the predicate answers with a truthy / falsy int (0, 1, 2, ...) instead of a bool
    lazy = {'op': 'filter', 'm': mm, 'r': r, 'lazy': True, 'int': as_int, 'in': node}
    eager = {'op': 'filter', 'm': mm, 'r': r, 'lazy': False, 'int': as_int, 'in': node}
    viacatch = {'op': 'catch', 'exc': None, 'in': {'op': 'predraise', 'm': mm, 'r': r, 'in': node}}
    outs = []
    for prog in (lazy, eager, viacatch):
        ds, _ = progcheck.build_checked(prog)
        got, exc, _ = observe.take(lambda: ds, ev(node).n + 10)
        if exc is not None:
            raise Violation(f'three-way-raised|{prog["op"]}', f'program: {progs.show(prog)}\n{observe.describe_exc(exc)}')
        outs.append(got)
    if not (observe.same_list(outs[0], outs[1]) and observe.same_list(outs[0], outs[2])):
        raise Violation('three-way-disagree', f'base program: {progs.show(node)} predicate m={mm} r={r}\n'
                                              f'lazy filter   {outs[0]}\neager filter  {outs[1]}\ncatch         {outs[2]}')
    want = [v for v in ev(node).vals if progs.f_pred(mm, r, v)]
    if not observe.same_list(outs[0], want):
        raise Violation('three-way-vs-reference', f'base program: {progs.show(node)}\ngot {outs[0]}\nexpected {want}')


def replay(case):
    progcheck.setup_process()
    if case.get('mode') == 'reshuffled':
        check_reshuffled(case['kind'], case['n'], {int(k): v for k, v in case['fail'].items()}, 'VErrA',
                         3 + len(case['fail']))
    elif case.get('mode') == 'three_way':
        three_way(case['ast'], case['m'], case['r'], case.get('int', False))
    else:
        check_program(case['ast'])


def nontrivial_enum(n, fail, spec):
    if not fail:
        return False
    surv = n - len(fail)
    foreign = any(not progs.Raise(e, ()).is_caught_by(spec) for e in fail.values())
    return surv >= 1 or 0 in fail or (n - 1) in fail or foreign


@st.composite
def st_random(draw):
    ctx = gen.Ctx()
    base = draw(gen.st_program(ctx, gen.PROFILES['indexable'], max_stages=3))
    m = ev(base)
    if not (m.indexable and m.sized) or m.iter_taint:
        base = draw(gen.st_source(ctx))
    node = base
    for _ in range(draw(st.integers(1, 2))):
        mm = draw(st.integers(2, 4))
        node = {'op': 'boom', 'm': mm, 'r': draw(st.integers(0, mm - 1)), 'exc': draw(st.sampled_from(RAISED[:-1])),
                'fn': draw(st.integers(0, 3)), 'in': node}
        if draw(st.booleans()):
            node = {'op': 'map', 'fn': draw(st.integers(0, 3)), 'in': node}
        if draw(st.integers(0, 3)) == 0 and ev(node).n:
            node = {'op': 'slice', 'form': draw(gen.st_slice_form(ev(node).n, ev(node))), 'in': node}
    spec = draw(st.sampled_from(SPECS))
    node = {'op': 'catch', 'exc': spec, 'in': node}
    try:
        ev(node)
    except Invalid:
        node = {'op': 'catch', 'exc': 'VErrA', 'in': node['in']}
    mode = draw(st.sampled_from(['catch', 'catch', 'three_way']))
    if mode == 'three_way':
        mm = draw(st.integers(2, 4))
        b = base
        mb = ev(b)
        if mb.has_raise or mb.taint or mb.int_taint or mb.iter_taint or not (mb.indexable and mb.sized):
            b = draw(gen.st_source(ctx))
        return {'mode': 'three_way', 'ast': b, 'm': mm, 'r': draw(st.integers(0, mm - 1)), 'int': draw(st.booleans())}
    return {'mode': 'catch', 'ast': node}


def run_shard(tier, idx, nshards, rec, known):
    progcheck.setup_process()
    out = Outcome()
    nmax = 4 if tier == 'quick' else 5
    k = 0
    for kind in ('list', 'dict'):
        for n in range(0, nmax + 1):
            for r in range(0, n + 1):
                for subset in itertools.combinations(range(n), r):
                    for raised in (RAISED if subset else RAISED[:1]):
                        k += 1
                        if k % nshards != idx:
                            continue
                        fail = {p: raised for p in subset}
                        if len(subset) >= 2:  # mix two types
                            fail[subset[-1]] = RAISED[(RAISED.index(raised) + 1) % len(RAISED)]
                        if subset and raised == 'VErrA' and len(subset) <= 2:
                            try:
                                check_reshuffled(kind, n, {p: 'VErrA' for p in subset}, 'VErrA', 3 + len(subset))
                            except Violation as v:
                                if not known.match(v.sig):
                                    out.violation = ({'mode': 'reshuffled', 'kind': kind, 'n': n,
                                                      'fail': {str(p): 'VErrA' for p in subset}}, v.sig, v.detail)
                                    return [out]
                        for spec in SPECS:
                            if 'StopIteration' in fail.values() and spec not in ('StopIteration', 'Exception'):
                                continue
                            for shape in SHAPES:
                                if 'IndexError' in fail.values() and shape == 'batch2':
                                    continue  # BatchDataset documents IndexError of its input as "end of data"
                                node = make(kind, n, fail, shape, spec)
                                if node is None:
                                    continue
                                case = {'mode': 'catch', 'ast': node, 'program': progs.show(node)}
                                try:
                                    check_program(node)
                                except Violation as v:
                                    if known.match(v.sig):
                                        rec.known_hits[v.sig] += 1
                                        continue
                                    out.violation = (case, v.sig, v.detail)
                                    return [out]
                                rec.case(case, nontrivial_enum(n, fail, spec),
                                         ['enumerated', 'shape:' + shape, 'spec:' + str(spec), 'kind:' + kind], size=n)

    def hyp(case):
        if case['mode'] == 'three_way':
            three_way(case['ast'], case['m'], case['r'], case.get('int', False))
            m = ev(case['ast'])
            rec.case({'mode': 'three_way', 'program': progs.show(case['ast']), 'm': case['m'], 'r': case['r'],
                      'int': case.get('int', False), 'ast': case['ast']}, m.n >= 2,
                     ['three-way', 'predicate:int' if case.get('int') else 'predicate:bool'],
                     size=progs.size(case['ast']))
        else:
            m = check_program(case['ast'])
            inner = ev(case['ast']['in'])
            nfail = sum(isinstance(v, progs.Raise) for v in inner.vals)
            rec.case({'mode': 'catch', 'program': progs.show(case['ast']), 'ast': case['ast']},
                     nfail >= 1 and (m.n >= 1 or m.has_raise), ['random', 'spec:' + str(case['ast']['exc'])]
                     + (['foreign-exception-propagates'] if m.has_raise else []), size=progs.size(case['ast']))

    o2 = drive(hyp, st_random(), N[tier], rec, known, seed() * 1000 + idx)
    return [out, o2]
