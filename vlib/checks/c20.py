"""C20 - the profiling wrapper is transparent and counts truthfully."""
import numpy as np
from hypothesis import strategies as st

from .. import build as B
from .. import gen, observe, progcheck, progs
from ..common import Violation, drive, seed
from ..refmodel import Invalid, ev

PID = 'C20'
RULE = ('Hypothesis: C01 programs (single- and multi-input stages, raising maps + catch, thread prefetch with 1 and '
        '2-3 workers, items) with an identity spy map inserted after every stage, wrapped in ProfilingDataset and '
        'iterated fully or partially (k drawn), by two alternately advanced iterators over the one wrapper, or indexed. Oracle: (1) iteration / length / indexing / errors of '
        'the wrapper equal the reference of the unwrapped program; (2) a structural snapshot of the wrapped pipeline '
        '(object ids, attributes, index arrays) is unchanged by wrapping and by using the wrapper, and no stage '
        'object is shared between the two trees; (3) for every profiling node, hit_count[0]-hit_count[1] equals the '
        'call counter of the spy directly above it, the root counts equal what the harness fetched, failed fetches '
        'are counted separately. Non-trivial: >=3 stages and (multi-input stage, partial iteration, or a failed '
        'fetch); distinct by case JSON. Part sched: profiled PrefetchDataset / ParMapDataset workloads (n 0..6, 1-3 workers, '
        'faults, catch sets, early stops) x owned schedules (every one-preemption schedule of small workloads, drawn '
        'schedules beyond); non-trivial there: >=2 workers runnable and (a preemption or out-of-order completion).')
ASSUMPTIONS = [
    'counts are exact without prefetch and behind the 1-worker thread prefetch; behind >=2 REAL worker threads only '
    '"<= spy calls, failed <= total" is required (unlocked += on a shared list is a byte-code level race); part '
    '"sched" runs the profiled prefetch pipeline under harness-owned schedules (source-line granularity), where the '
    'counts of every node are required to be exact against the event log',
    'shared caches and user supplied random generators are compared by identity, not by content',
    'ProfilingDataset.indexable is a method and there is no ordered flag: flags are not part of the comparison',
]
N = {'quick': 1000, 'thorough': 6000}


def plan(tier):
    return {'shards': 4 if tier == 'quick' else 16}


def with_spies(node, path='r'):
    """The program with an identity spy map after every stage."""
    if node['op'] in progs.LEAVES:
        inner = node
    elif 'ins' in node:
        inner = dict(node, ins=[with_spies(c, f'{path}.{i}') for i, c in enumerate(node['ins'])])
    else:
        inner = dict(node, **{'in': with_spies(node['in'], path + '.0')})
    return {'op': 'spy', 'sid': path, 'in': inner}


def stages(ds, seen=None):
    """All Dataset objects of a pipeline tree."""
    import lazy_dataset
    out = []
    stack = [ds]
    while stack:
        d = stack.pop()
        if not isinstance(d, lazy_dataset.Dataset) or any(d is x for x in out):
            continue
        out.append(d)
        if hasattr(d, 'input_dataset'):
            stack.append(d.input_dataset)
        if hasattr(d, 'input_datasets'):
            stack.extend(d.input_datasets)
    return out


def stages_incl_prof(ds):
    return stages(ds)


def snapshot(ds):
    import lazy_dataset
    snap = []
    for d in stages(ds):
        attrs = {}
        for k, v in sorted(vars(d).items()):
            if k in ('_keys', '_key_set'):
                continue  # lazily memoised, not configuration
            if isinstance(v, lazy_dataset.Dataset):
                attrs[k] = ('ds', id(v))
            elif isinstance(v, (list, tuple)) and v and all(isinstance(x, lazy_dataset.Dataset) for x in v):
                attrs[k] = ('dss', type(v).__name__, tuple(id(x) for x in v))
            elif isinstance(v, np.ndarray):
                attrs[k] = ('arr', v.dtype.str, v.tobytes())
            elif isinstance(v, (int, str, bool, float, type(None))):
                attrs[k] = ('val', repr(v))
            else:
                attrs[k] = ('obj', id(v))
        snap.append((type(d).__name__, id(d), attrs))
    return snap


def check(case):
    import lazy_dataset
    node = case['ast']
    spied = with_spies(node)
    m = ev(node)
    env = B.Env()
    try:
        P = B.build(spied, env)
    except Exception as e:
        raise Violation('construction-raised', f'{progs.show(node)}: {observe.describe_exc(e)}')
    if case.get('user_stage'):
        # a stage written by a user: a Dataset subclass with the minimal interface (its __iter__ takes no with_key)
        class UserStage(lazy_dataset.Dataset):
            def __init__(self, input_dataset):
                self.input_dataset = input_dataset

            def copy(self, freeze=False):
                return self.__class__(self.input_dataset.copy(freeze=freeze))

            @property
            def indexable(self):
                return self.input_dataset.indexable

            @property
            def ordered(self):
                return self.input_dataset.ordered

            def __len__(self):
                return len(self.input_dataset)

            def __iter__(self):
                for x in self.input_dataset:
                    yield x

            def keys(self):
                return self.input_dataset.keys()

            def __getitem__(self, item):
                if isinstance(item, (int, np.integer, str)):
                    return self.input_dataset[item]
                return super().__getitem__(item)
        P = UserStage(P)
    if case.get('warm') and m.cap_str == 'req' and m.keys and not m.taint:
        # the pipeline was USED before it is profiled (a lookup, keys, a pass): what it memoised is its own business
        try:
            P[m.keys[0]]
            P.keys()
            observe.take(lambda: P, 3)
        except observe.PASS_THROUGH:
            raise
        except BaseException as e:
            e.__traceback__ = None
    for spy in getattr(env, 'spies', {}).values():
        spy.calls = 0  # eager stages (sort, eager filter) iterate at construction time, before the wrapper exists
    before = snapshot(P)
    desc = f'program: {progs.show(node)}  mode={case["mode"]} k={case.get("k")}'
    try:
        W = lazy_dataset.core.ProfilingDataset(P)
    except NotImplementedError as e:
        raise Violation('wrapping-raised', f'{desc}\n{observe.describe_exc(e)}')
    multi = any(n['op'] == 'prefetch' and n['workers'] > 1 for n in progs.walk(node)) or \
        any(n['op'] == 'parmap' and n['workers'] > 1 for n in progs.walk(node))
    fetched = 0
    failed_root = 0
    tag = node['op']
    if case['mode'] == 'resume':
        # the consumer keeps its iterator after an error and asks again ("skip broken examples" loops): whatever the
        # plain pipeline does then (end, or go on), the profiled one does the same - judged against a second,
        # independently built plain pipeline, not against the model
        def drive_on(ds):
            out = []
            it = iter(ds)
            try:
                for _ in range(m.n + 4):
                    try:
                        out.append(('v', progs.token(next(it))))
                    except StopIteration:
                        out.append(('end',))
                        if len(out) >= 2 and out[-2] == ('end',):
                            break
                    except observe.PASS_THROUGH:
                        raise
                    except BaseException as e:  # noqa
                        e.__traceback__ = None
                        out.append(('err', type(e).__name__, repr(e.args)))
            finally:
                if hasattr(it, 'close'):
                    it.close()
            return out
        P2 = B.build(spied, B.Env())
        if case.get('user_stage'):
            P2 = UserStage(P2)
        plain, prof = drive_on(P2), drive_on(W)
        if not m.unordered and plain != prof:
            raise Violation(f'resume-after-error|{tag}', f'{desc}\nnext() repeated after errors: the plain pipeline '
                                                         f'gives {plain}\nthe profiled pipeline gives {prof}')
        return any(x[0] == 'err' for x in plain)
    if case['mode'] == 'full':
        got, exc, exhausted = observe.take(lambda: W, m.n + 3)
        observe.check_stream(got, exc, exhausted, m, tag, 'wrapped-iter')
        fetched, failed_root = len(got), int(exc is not None)
        try:
            ln = len(W)
        except Exception:
            ln = None
        if m.sized and ln != m.n:
            raise Violation(f'wrapped-len|{tag}', f'{desc}\nlen(wrapper) == {ln}, expected {m.n}')
    elif case['mode'] == 'dual':
        # two iterators over the ONE wrapper object, advanced alternately (zip(w, w), or a pass started while another
        # is suspended): each delivers what the wrapped pipeline delivers, the counters see both
        its = [iter(W), iter(W)]
        gots = [[], []]
        live = [True, True]
        for _ in range(m.n + 2):
            for j in (0, 1):
                if live[j]:
                    try:
                        gots[j].append(next(its[j]))
                    except StopIteration:
                        live[j] = False
                    except observe.PASS_THROUGH:
                        raise
                    except BaseException as e:
                        raise Violation(f'wrapped-iter-raised|{tag}', f'{desc}\niterator {j} of two raised '
                                                                      f'{observe.describe_exc(e)} after {gots[j]}')
        for it in its:
            it.close()
        want, _ = observe.expected_stream(m.vals)
        for j in (0, 1):
            if live[j] or not observe.same_list(gots[j], want):
                raise Violation(f'wrapped-iter-values|{tag}', f'{desc}\niterator {j} of two alternately advanced '
                                                              f'iterators delivered {gots[j]}\nexpected {want}')
        fetched, failed_root = len(gots[0]) + len(gots[1]), 0
    elif case['mode'] == 'partial':
        k = case['k']
        it = iter(W)
        got = []
        exc = None
        try:
            for _ in range(k):
                got.append(next(it))
        except StopIteration:
            pass
        except observe.PASS_THROUGH:
            raise
        except BaseException as e:
            exc = e
        # the counters are live: read while the iterator is still suspended they already show what was fetched
        if exc is None and not multi and not m.iter_taint:
            live = W.hit_count[0] - W.hit_count[1]
            if live != len(got) and not (live == len(got) + 1 and len(got) < k):
                raise Violation('root-count-not-live', f'{desc}\nwith the iterator still alive after {len(got)} '
                                                       f'examples the root node reports hit_count {W.hit_count}')
        it.close()
        want, want_exc = observe.expected_stream(m.vals)
        if not m.unordered and not observe.same_list(got, want[:len(got)]):
            raise Violation(f'wrapped-iter-values|{tag}', f'{desc}\ngot {got}\nexpected prefix of {want}')
        fetched, failed_root = len(got), int(exc is not None)
    elif case['mode'] == 'key':
        if not (m.cap_str == 'req' and m.keys and not m.taint and len(set(m.keys)) == len(m.keys)):
            return False
        for kk, want_v in zip(m.keys, m.vals):
            try:
                v = W[kk]
            except observe.PASS_THROUGH:
                raise
            except BaseException as e:
                failed_root += 1
                if not (isinstance(want_v, progs.Raise) and observe.exc_matches(e, want_v)):
                    raise Violation(f'wrapped-key-raised|{tag}', f'{desc}\nW[{kk!r}] raised {observe.describe_exc(e)}')
                continue
            fetched += 1
            if isinstance(want_v, progs.Raise) or not observe.same(v, want_v):
                raise Violation(f'wrapped-key-value|{tag}', f'{desc}\nW[{kk!r}] == {v!r}, expected {want_v!r}')
    else:  # index
        if not (m.indexable and m.sized) or m.int_taint:
            return False
        for i in range(-m.n - 1, m.n + 1):
            try:
                v = W[i]
            except observe.PASS_THROUGH:
                raise
            except BaseException as e:
                failed_root += 1
                if -m.n <= i < m.n and not (isinstance(m.vals[i], progs.Raise)
                                            and observe.exc_matches(e, m.vals[i])):
                    raise Violation(f'wrapped-index-raised|{tag}', f'{desc}\nW[{i}] raised {observe.describe_exc(e)}')
                continue
            if not -m.n <= i < m.n:
                raise Violation(f'wrapped-index-outside|{tag}', f'{desc}\nW[{i}] returned {v!r}')
            fetched += 1
            if not observe.same(v, m.vals[i]):
                raise Violation(f'wrapped-index-value|{tag}', f'{desc}\nW[{i}] == {v!r}, expected {m.vals[i]!r}')
    if m.iter_taint:
        return False  # key iteration may be refused as a whole (documented); there is nothing to count
    # (2) wrapped pipeline untouched, nothing shared
    after = snapshot(P)
    if before != after:
        diff = [(a, b) for a, b in zip(before, after) if a != b][:2]
        raise Violation('wrapped-pipeline-modified', f'{desc}\nfirst differences: {diff}')
    p_ids = {id(d) for d in stages(P)}
    w_stage = stages(W)
    shared = [type(d).__name__ for d in w_stage if id(d) in p_ids]
    if shared:
        raise Violation('stage-shared-with-wrapper', f'{desc}\nshared stage objects: {shared}')
    # (3) counts
    Prof = lazy_dataset.core.ProfilingDataset
    ok, bad = W.hit_count[0] - W.hit_count[1], W.hit_count[1]
    if multi:
        if ok > fetched or bad > W.hit_count[0]:
            raise Violation('root-count-too-high', f'{desc}\nroot hit_count {W.hit_count}, fetched {fetched}')
    else:
        if ok != fetched or bad != failed_root:
            raise Violation('root-count', f'{desc}\nroot hit_count {W.hit_count}: successes {ok} != fetched '
                                          f'{fetched} or failed {bad} != {failed_root}')
    checked = 0
    per_spy = {}
    for d in w_stage:
        if isinstance(d, lazy_dataset.core.MapDataset) and isinstance(d.map_function, B.Spy):
            below = d.input_dataset
            if not isinstance(below, Prof):
                raise Violation('input-not-wrapped', f'{desc}\ninput of {d.map_function} is {type(below).__name__}')
            checked += 1
            if below.hit_count[1] > below.hit_count[0] or below.hit_count[1] < 0:
                raise Violation('failed-count', f'{desc}\nhit_count {below.hit_count}')
            # a stage that occurs several times in the tree (tile, self-concatenation) is copied per occurrence, the
            # spy function object is shared by those copies: compare the sum over the occurrences
            ent = per_spy.setdefault(id(d.map_function), [d.map_function, 0, []])
            if not any(below.hit_count is h for h in ent[2]):
                ent[1] += below.hit_count[0] - below.hit_count[1]
                ent[2].append(below.hit_count)
    # the profiling node that wraps a spy map must report as many successful fetches as the spy returned examples
    above = {}
    for d in stages_incl_prof(W):
        if isinstance(d, Prof) and isinstance(d.input_dataset, lazy_dataset.core.MapDataset) \
                and isinstance(d.input_dataset.map_function, B.Spy):
            spy = d.input_dataset.map_function
            ent = above.setdefault(id(spy), [spy, 0, []])
            if not any(d.hit_count is h for h in ent[2]):
                ent[1] += d.hit_count[0] - d.hit_count[1]
                ent[2].append(d.hit_count)
    for spy, succ, hcs in above.values():
        if (succ > spy.calls) if multi else (succ != spy.calls):
            raise Violation('stage-count-above', f'{desc}\nprofiling node of the stage {spy}: hit_counts {hcs} '
                                                 f'({succ} successful fetches) but that stage delivered {spy.calls}')
    for spy, succ, hcs in per_spy.values():
        if (succ > spy.calls) if multi else (succ != spy.calls):
            raise Violation('stage-count', f'{desc}\nstage below {spy}: hit_counts {hcs} ({succ} successful '
                                           f'fetches) but the spy above it saw {spy.calls}')
    case['_checked_nodes'] = checked
    return True


def check_growing(case):
    """The profiled pipeline sits on a raw list that grows: length, negative index and slices of the wrapper follow
    the wrapped pipeline (also after they were asked once before)."""
    import lazy_dataset
    from lazy_dataset import core
    lst = [('s', i) for i in range(case['n'])]
    P = core.ListDataset(lst).map(lambda x: x)
    if case['top'] == 'batch':
        P = P.batch(2)
    W = core.ProfilingDataset(P)
    for step in range(3):
        want = list(P)
        got = list(W)
        desc = f'{case} after {step} append(s)'
        if got != want or len(W) != len(P):
            raise Violation('wrapped-len|growing', f'{desc}\nwrapper: len {len(W)}, yields {got}\npipeline: len '
                                                   f'{len(P)}, yields {want}')
        if want and (W[-1] != want[-1] or list(W[1:]) != want[1:]):
            raise Violation('wrapped-index-value|growing', f'{desc}\nW[-1] == {W[-1]!r}, W[1:] == {list(W[1:])}; '
                                                           f'pipeline yields {want}')
        lst.append(('s', 'new', step))


def replay(case):
    progcheck.setup_process()
    if case.get('growing'):
        check_growing(case)
        return
    if case.get('shared_rng'):
        return check_shared_rng(case)
    if case.get('profiled'):
        from .. import sched_engine as E
        sched_judge(E.run_case(case))
        return
    check(dict(case))


@st.composite
def st_case(draw):
    allowed = gen.ALL_OPS - {'reshuffle', 'local_shuffle', 'cache_eager', 'filter_eager', 'sort', 'shuffle_once',
                             'shard', 'tile'}
    if draw(st.integers(0, 3)) == 0:
        allowed = allowed | {'reshuffle', 'sort', 'shuffle_once', 'shard', 'tile', 'filter_eager'}
    if draw(st.integers(0, 7)) == 0:
        # a keyed n-ary stage that was used BY KEY before it is profiled, then fetched by key through the profiler
        ctx = gen.Ctx()
        a = draw(gen.st_source(ctx, kind='dict', min_n=1))
        b = draw(gen.st_source(ctx, kind='dict', min_n=1))
        if set(a['keys']) & set(b['keys']):
            b = dict(b, keys=[k + '_b' for k in b['keys']])
        if draw(st.booleans()):
            a = {'op': 'map', 'fn': draw(st.integers(0, 3)), 'in': a}
        node = {'op': 'concat', 'how': draw(st.sampled_from(['method', 'function'])), 'ins': [a, b]}
        if draw(st.booleans()):
            node = {'op': 'map', 'fn': draw(st.integers(0, 3)), 'in': node}
        return {'ast': node, 'mode': draw(st.sampled_from(['key', 'key', 'full', 'index'])), 'warm': True}
    if draw(st.integers(0, 5)) == 0:
        # a failing stage below a stage that is told what to catch (the profiler works on a COPY of the pipeline:
        # the copy has to catch what the original catches)
        ctx = gen.Ctx()
        node = draw(gen.st_source(ctx, min_n=2))
        mm = draw(st.integers(2, 3))
        exc = draw(st.sampled_from(['VErrA', 'FilterException', 'VErrC']))
        node = {'op': 'boom', 'm': mm, 'r': draw(st.integers(0, mm - 1)), 'exc': exc, 'fn': draw(st.integers(0, 3)),
                'in': node}
        spec = draw(st.sampled_from([True, 'VErrA', ['VErrA', 'VErrC'], 'VErrC']))
        if draw(st.booleans()):
            w = draw(st.integers(1, 2))
            node = {'op': 'prefetch', 'workers': w, 'buffer': draw(st.integers(w, 3)), 'catch': spec, 'in': node}
        else:
            node = {'op': 'catch', 'exc': None if spec is True else spec, 'in': node}
        if draw(st.booleans()):
            node = {'op': 'map', 'fn': draw(st.integers(0, 3)), 'in': node}
        try:
            ev(node)
        except Invalid:
            node = node['in'] if node['op'] == 'map' else node
            try:
                ev(node)
            except Invalid:
                node = draw(gen.st_source(ctx))
        return {'ast': node, 'mode': 'full'}
    if draw(st.integers(0, 4)) == 0:
        # a per-epoch reshuffle below a stage that freezes its input per iteration (catch, multi-worker prefetch)
        ctx = gen.Ctx()
        node = draw(gen.st_source(ctx, min_n=1))
        if draw(st.booleans()):
            node = {'op': 'map', 'fn': draw(st.integers(0, 3)), 'in': node}
        node = {'op': 'reshuffle', 'seed': draw(st.integers(0, 50)), 'in': node}
        if draw(st.booleans()):
            node = {'op': 'map', 'fn': draw(st.integers(0, 3)), 'in': node}
        top = draw(st.sampled_from(['catch', 'prefetch', 'prefetch1', 'none']))
        if top == 'catch':
            node = {'op': 'catch', 'exc': None, 'in': node}
        elif top == 'prefetch':
            w = draw(st.integers(2, 3))
            node = {'op': 'prefetch', 'workers': w, 'buffer': draw(st.integers(w, 4)), 'catch': False, 'in': node}
        elif top == 'prefetch1':
            node = {'op': 'prefetch', 'workers': 1, 'buffer': draw(st.integers(1, 3)), 'catch': False, 'in': node}
        try:
            ev(node)
        except Invalid:
            node = node['in']
        return {'ast': node, 'mode': draw(st.sampled_from(['full', 'partial'])), 'k': draw(st.integers(0, 3))}
    node = draw(gen.st_program(gen.Ctx(), allowed, max_stages=5))
    mode = draw(st.sampled_from(['full', 'full', 'partial', 'index', 'dual', 'key']))
    if mode == 'dual':
        mm = ev(node)
        if mm.has_raise or mm.unordered or mm.iter_taint or not mm.sized or any(
                n['op'] in ('prefetch', 'parmap') for n in progs.walk(node)):
            mode = 'full'
    if mode in ('full', 'partial') and draw(st.integers(0, 2)) == 0:
        mm = ev(node)
        if mm.has_raise and not mm.unordered and not mm.iter_taint:
            mode = 'resume'
    case = {'ast': node, 'mode': mode}
    if draw(st.integers(0, 5)) == 0:
        case['user_stage'] = True
    if draw(st.integers(0, 2)) == 0:
        case['warm'] = True
    if mode == 'partial':
        case['k'] = draw(st.integers(0, ev(node).n + 1))
    return case


# ---------------------------------------------------------------------------------------------------------------------
# part "sched": the profiled pipeline behind worker threads under harness-owned schedules (exact counts, no clock)

SCHED_N = {'quick': 150, 'thorough': 1500}


def sched_judge(tr):
    from .. import sched_engine as E
    E.judge_termination(tr)
    E.judge_values(tr)
    E.judge_profile(tr)


def sched_workloads(tier):
    """(workload, max preemptions): every schedule with one preemption at any line of core.py / parallel_utils.py."""
    out = []
    for n in ((2,) if tier == 'quick' else (2, 3)):
        out.append(({'kind': 'pf', 'n': n, 'workers': 2, 'buffer': 2, 'profiled': True, 'trace_core': True}, 1))
        out.append(({'kind': 'pf', 'n': n, 'workers': 2, 'buffer': 2, 'profiled': True, 'trace_core': True,
                     'fn_fail': {'0': 'VErrA'}, 'catch': 'VErrA'}, 1))
        out.append(({'kind': 'pf', 'n': n + 1, 'workers': 2, 'buffer': 2, 'profiled': True, 'trace_core': True,
                     'stop': {'kind': 'close', 'k': 1}}, 1))
        out.append(({'kind': 'pm', 'n': n, 'workers': 2, 'buffer': 2, 'profiled': True, 'trace_core': True}, 1))
    if tier == 'thorough':
        out.append(({'kind': 'pf', 'n': 2, 'workers': 2, 'buffer': 2, 'profiled': True, 'trace_core': True}, 2))
        out.append(({'kind': 'pf', 'n': 3, 'workers': 3, 'buffer': 3, 'profiled': True, 'trace_core': True,
                     'src_fail': {'1': 'VErrC'}}, 1))
    return out


@st.composite
def st_sched_case(draw):
    from .. import sched_engine as E
    kind = draw(st.sampled_from(['pf', 'pf', 'pf', 'pm']))
    w = draw(st.sampled_from([1, 2, 2, 3]))
    b = draw(st.integers(w, 4))
    n = draw(st.integers(0, 6))
    case = {'kind': kind, 'n': n, 'workers': w, 'buffer': b, 'profiled': True, 'trace_core': draw(st.booleans())}
    keyed = draw(st.integers(0, 2))
    if keyed == 1 and not (kind == 'pf' and w > 1):
        case['with_key'] = True
    elif keyed:
        case['src'] = 'dict'
    case['yields'] = draw(st.lists(st.integers(0, 3), min_size=n, max_size=n))
    if n >= 2 and draw(st.integers(0, 3)) > 0:
        case['slow'] = [draw(st.integers(0, n - 2)), draw(st.integers(8, 40))]
    mode = draw(st.sampled_from(['plain', 'plain', 'fault', 'stop']))
    if mode == 'fault' and n:
        fails = draw(st.lists(st.integers(0, n - 1), min_size=1, max_size=min(n, 3), unique=True))
        src_fail, fn_fail = {}, {}
        for p_ in fails:
            (src_fail if draw(st.booleans()) else fn_fail)[str(p_)] = draw(st.sampled_from(['VErrA', 'VErrB', 'VErrC']))
        case['src_fail'], case['fn_fail'] = src_fail, fn_fail
        if kind == 'pf':
            case['catch'] = draw(st.sampled_from([False, 'VErrA', ['VErrA', 'VErrC']]))
            if case['catch'] is not False and w > 1:
                case.pop('with_key', None)
    elif mode == 'stop':
        sk = draw(st.sampled_from(['close', 'close', 'del', 'gc']))
        case['stop'] = {'kind': sk, 'k': draw(st.integers(0, n + 1))}
    if draw(st.integers(0, 2)) == 0:
        case['pauses'] = draw(st.lists(st.integers(0, n), min_size=0, max_size=3, unique=True))
    case['sched'] = draw(E.st_sched())
    return case


def run_sched_part(tier, idx, nshards, rec, known):
    from .. import sched_engine as E
    from . import sched_common as SC

    def nontrivial(case, tr):
        return case['workers'] >= 2 and tr.sched.max_enabled >= 2 and (E.reordered(tr) or tr.sched.preemptions >= 1)

    def on(case, tr):
        return SC.classes(case, tr) | {'part:sched'}

    outs = [SC.run_dfs(sched_workloads(tier), sched_judge, nontrivial, rec, known, idx, nshards)]
    if outs[0].violation:
        return outs

    def check_one(case):
        tr = E.run_case(case)
        if tr.os_alive:
            raise RuntimeError(f'harness: OS threads still alive after the case: {tr.os_alive}')
        sched_judge(tr)
        rec.case(dict(SC.summarise(case, tr), part='sched', counts=getattr(tr, 'prof', None)), nontrivial(case, tr),
                 on(case, tr), size=case['n'])
    outs.append(drive(check_one, st_sched_case(), SCHED_N[tier], rec, known, seed() * 1000 + 500 + idx))
    return outs


def check_shared_rng(case):
    """Two inputs of a zip / intersperse draw from ONE random generator (a reshuffle behind a prefetch on one side, a
    random augmentation below a reshuffle on the other): the order in which they draw is part of what the pipeline
    delivers. Built twice from one seed; one build iterated plain, the other through the profiler."""
    import lazy_dataset
    n, sd = case['n'], case['seed']

    def build():
        rng = np.random.RandomState(sd)

        def augment(x):
            return x + 1000 * int(rng.randint(1, 9))
        left = lazy_dataset.new(list(range(n))).map(augment).shuffle(True, rng=rng)
        right = lazy_dataset.new(list(range(n))).shuffle(True, rng=rng)
        if case['right'] == 'prefetch':
            right = right.prefetch(2, 4)
        elif case['right'] == 'prefetch1':
            right = right.prefetch(1, 2)
        elif case['right'] == 'catch':
            right = right.catch()
        if case['shape'] == 'zip':
            return left.zip(right) if case['order'] == 'lr' else right.zip(left)
        return left.intersperse(right) if case['order'] == 'lr' else right.intersperse(left)
    plain = build()
    W = lazy_dataset.core.ProfilingDataset(build())
    for ep in range(case['epochs']):
        a, _, _ = observe.take(lambda: plain, 4 * n + 4)
        b, _, _ = observe.take(lambda: W, 4 * n + 4)
        if a != b:
            raise Violation(f'shared-rng-order|{case["shape"]}',
                            f'{case}\nepoch {ep}: the plain pipeline delivers {a}\nthe profiled one {b}')


def run_shard(tier, idx, nshards, rec, known):
    progcheck.setup_process()

    def one(case):
        c = dict(case)
        done = check(c)
        node = case['ast']
        m = ev(node)
        ops = set(progs.ops(node))
        nt = bool(done) and progs.size(node) >= 3 and (bool(ops & set(progs.NARY)) or case['mode'] in ('partial', 'dual', 'resume')
                                                      or m.has_raise or 'catch' in ops)
        cls = progcheck.classes_of(node, m) | {'mode:' + case['mode']}
        if case.get('user_stage'):
            cls = cls | {'user-stage-on-top'}
        rec.case({'program': progs.show(node), 'mode': case['mode'], 'k': case.get('k'), 'ast': node,
                  'user_stage': bool(case.get('user_stage')),
                  'profiling_nodes_checked': c.get('_checked_nodes', 0)}, nt, cls, size=progs.size(node))
    if idx == 0:
        from ..common import Outcome
        o0 = Outcome()
        for n in (1, 2, 3):
            for top in ('map', 'batch'):
                case = {'growing': True, 'n': n, 'top': top}
                try:
                    check_growing(case)
                except Violation as v:
                    if not known.match(v.sig):
                        o0.violation = (case, v.sig, v.detail)
                        return [o0]
                rec.case(case, True, ['growing-list'], size=n)
    if idx == 2 % nshards:
        from ..common import Outcome
        o2 = Outcome()
        for shape in ('zip', 'intersperse'):
            for right in ('prefetch', 'prefetch1', 'plain'):
                for order in ('lr', 'rl'):
                    for sd in range(3):
                        case = {'shared_rng': True, 'n': 6, 'seed': sd, 'shape': shape, 'right': right, 'order': order,
                                'epochs': 2}
                        try:
                            check_shared_rng(case)
                        except Violation as v:
                            if not known.match(v.sig):
                                o2.violation = (case, v.sig, v.detail)
                                return [o2]
                        rec.case(case, True, ['shared-rng-' + shape, 'right:' + right], size=6)
    outs = [drive(one, st_case(), N[tier], rec, known, seed() * 1000 + idx)]
    if not outs[0].violation:
        outs.extend(run_sched_part(tier, idx, nshards, rec, known))
    return outs
