"""C02 - length and integer indexing agree with iteration (every index, three integer types, every sub-pipeline)."""
from .. import observe, progcheck, progs
from ..common import Violation, seed
from ..refmodel import ev

PID = 'C02'
RULE = ('Programs as in C01 (without per-epoch random stages at the result); for the result AND every intermediate '
        'stage: len(ds) == number of iterated examples when sized; when the dataset reports indexable: ds[i] for '
        'EVERY i in [-len-2, len+2) as int, np.int64 and np.int32 equals the i-th element of the reference list, '
        'IndexError (never a value) outside [-len, len). Non-trivial: result length >= 2 and the program contains a '
        'stage with its own index translation (batch, concatenate, intersperse, slice, zip, key_zip, items, cache, '
        'tile, shard, sort, shuffle, wu source); distinct by canonical JSON.')
ASSUMPTIONS = [
    'the i-th iterated example is taken from the reference interpreter, whose agreement with real iteration is C01',
    'where integer indexing goes through keys() of a node with duplicate keys (ItemsDataset over such a node) the '
    'documented "Keys are not unique" AssertionError is accepted instead of the value',
    'a model element that raises (user function failure) must raise the same exception when indexed',
]
N = {'quick': 1200, 'thorough': 5000}
SHARDS = {'quick': 4, 'thorough': 16}
TRANSLATING = {'batch', 'concat', 'intersperse', 'slice', 'zip', 'key_zip', 'items', 'cache', 'tile', 'shard', 'sort',
               'shuffle_once'}


ENUM_DEPTH = {'quick': 2, 'thorough': 3}


def plan(tier):
    return {'shards': SHARDS[tier]}


def check_program(node, rec=None):
    ds, env = progcheck.build_checked(node)
    # what happened to the pipeline object BEFORE it is indexed varies from program to program (a pure function of
    # the program): nothing / a complete pass / an abandoned pass plus len() and keys() - indexing must not care
    pre = progs.crc(progs.show(node)) % 3
    if pre:
        try:
            if pre == 1:
                observe.take(lambda: ds, 500)
            else:
                it = iter(ds)
                try:
                    next(it)
                finally:
                    if hasattr(it, 'close'):
                        it.close()
                len(ds)
                ds.keys()
        except observe.PASS_THROUGH:
            raise
        except BaseException as e:  # raising programs, datasets without length / keys: not this check's subject
            e.__traceback__ = None
    indexed = 0
    for path, sub in sorted(progcheck.subnodes(node), key=lambda t: -len(t[0])):
        m = ev(sub)
        try:
            if observe.check_len_index(env.nodes[path], m, sub['op']):
                indexed += 1
        except Violation as v:
            raise Violation(v.sig, f'program: {progs.show(sub)}\n{v.detail}')
    if rec is not None:
        m = ev(node)
        cls = progcheck.classes_of(node, m)
        cls.add('root-indexable' if m.indexable else ('root-sized' if m.sized else 'root-neither'))
        ops = set(progs.ops(node))
        nt = m.n >= 2 and (m.indexable or m.sized) and bool(
            ops & TRANSLATING or any(n['op'] == 'list' and n['mode'] == 'wu' for n in progs.walk(node)))
        rec.case({'program': progs.show(node), 'ast': node, 'len': m.n, 'indexed_nodes': indexed}, nt, cls,
                 size=progs.size(node))


def replay(case):
    progcheck.setup_process()
    check_program(case['ast'])


def run_shard(tier, idx, nshards, rec, known):
    out = progcheck.run(lambda node: check_program(node, rec), rec, known, 'full', N[tier], seed() * 1000 + idx)
    if out.violation:
        case, sig, detail = out.violation
        out.violation = ({'ast': case, 'program': progs.show(case)}, sig, detail)
        return [out]
    # bounded-exhaustive part: every chain of <= ENUM_DEPTH[tier] stage templates over every small source
    return [out, progcheck.run_enum(lambda node: check_program(node, rec), rec, known, ENUM_DEPTH[tier], idx, nshards)]
