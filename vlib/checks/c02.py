"""C02 - length and integer indexing agree with iteration (every index, three integer types, every sub-pipeline)."""
from .. import observe, progcheck, progs
from ..common import Violation, seed
from ..refmodel import ev

PID = 'C02'
RULE = ('Programs as in C01 (without per-epoch random stages at the result); for the result AND every intermediate '
        'stage: len(ds) == number of iterated examples when sized; when the dataset reports indexable: ds[i] for '
        'EVERY i in [-len-2, len+2) as int, np.int64 and np.int32 equals the i-th element of the reference list, '
        'IndexError (never a value) outside [-len, len). Non-trivial: result length >= 2 and the program contains a '
        'stage with its own index translation (batch, concatenate, intersperse, slice, zip, key_zip, items, cache, '
        'tile, shard, sort, shuffle, wu source); distinct by canonical JSON.')
ASSUMPTIONS = [
    'the i-th iterated example is taken from the reference interpreter, whose agreement with real iteration is C01',
    'where integer indexing goes through keys() of a node with duplicate keys (ItemsDataset over such a node) the '
    'documented "Keys are not unique" AssertionError is accepted instead of the value',
    'a model element that raises (user function failure) must raise the same exception when indexed',
]
N = {'quick': 1200, 'thorough': 5000}
SHARDS = {'quick': 4, 'thorough': 16}
TRANSLATING = {'batch', 'concat', 'intersperse', 'slice', 'zip', 'key_zip', 'items', 'cache', 'tile', 'shard', 'sort',
               'shuffle_once'}


ENUM_DEPTH = {'quick': 2, 'thorough': 3}


def plan(tier):
    return {'shards': SHARDS[tier]}


def check_program(node, rec=None):
    ds, env = progcheck.build_checked(node)
    # what happened to the pipeline object BEFORE it is indexed varies from program to program (a pure function of
    # the program): nothing / a complete pass / an abandoned pass plus len() and keys() - indexing must not care
    pre = progs.crc(progs.show(node)) % 3
    if pre:
        try:
            if pre == 1:
                observe.take(lambda: ds, 500)
            else:
                it = iter(ds)
                try:
                    next(it)
                finally:
                    if hasattr(it, 'close'):
                        it.close()
                len(ds)
                ds.keys()
        except observe.PASS_THROUGH:
            raise
        except BaseException as e:  # raising programs, datasets without length / keys: not this check's subject
            e.__traceback__ = None
    indexed = 0
    for path, sub in sorted(progcheck.subnodes(node), key=lambda t: -len(t[0])):
        m = ev(sub)
        try:
            if observe.check_len_index(env.nodes[path], m, sub['op']):
                indexed += 1
        except Violation as v:
            raise Violation(v.sig, f'program: {progs.show(sub)}\n{v.detail}')
    # a length that is offered equals the number of examples a REAL pass yields - also after the abandoned pass above
    # (state an aborted iteration leaves behind), for every sized stage, indexable or not
    for path, sub in sorted(progcheck.subnodes(node), key=lambda t: len(t[0])):
        m = ev(sub)
        if not m.sized or m.has_raise or m.n > 300:
            continue
        d = env.nodes[path]
        try:
            ln = len(d)
        except observe.PASS_THROUGH:
            raise
        except BaseException:  # noqa: a stage that offers no length although the model has one is C01/C02's other part
            continue
        for rnd in (1, 2):
            got, exc, exhausted = observe.take(lambda: d, m.n + 50)
            if exc is None and len(got) != ln:
                raise Violation(f'len-vs-pass|{sub["op"]}',
                                f'program: {progs.show(sub)}\nlen(ds) == {ln} but pass {rnd} yielded {len(got)} examples'
                                f' (history of the object: pre-step {pre} of 0 = nothing, 1 = one complete pass, '
                                f'2 = an abandoned pass + len + keys)')
    # "ds[i] equals the i-th ITERATED example" also when the indexing came first and in no particular order: on a
    # second, fresh build every stage is read by index in a scattered order (a pure function of the program), then
    # iterated
    m0 = ev(node)
    if m0.indexable and m0.sized and not m0.has_raise and not m0.unordered and not m0.int_taint and 2 <= m0.n <= 40:
        ds2, env2 = progcheck.build_checked(node)
        for path, sub in sorted(progcheck.subnodes(node), key=lambda t: -len(t[0])):
            m = ev(sub)
            if not (m.indexable and m.sized and not m.has_raise and not m.unordered and not m.int_taint and 2 <= m.n <= 300):
                continue
            d = env2.nodes[path]
            salt = progs.crc(progs.show(sub))
            order = sorted(range(m.n), key=lambda i: progs.crc((salt, i)))
            if salt % 2:
                order = [i - m.n if j % 2 else i for j, i in enumerate(order)]
            try:
                for i in order:
                    v = d[i]
                    if not observe.same(v, m.vals[i]):
                        raise Violation(f'index-value|{sub["op"]}', f'program: {progs.show(sub)}\nds[{i}] == {v!r} '
                                                                    f'(read in the order {order}); expected {m.vals[i]!r}')
                got, exc, exhausted = observe.take(lambda: d, m.n + 3)
            except observe.PASS_THROUGH:
                raise
            except Violation:
                raise
            except BaseException as e:  # noqa
                raise Violation(f'index-raised|{sub["op"]}', f'program: {progs.show(sub)}\nindexing in the order '
                                                             f'{order}: {observe.describe_exc(e)}')
            try:
                observe.check_stream(got, exc, exhausted, m, sub['op'], 'iter-after-scattered-index')
            except Violation as v:
                raise Violation(v.sig, f'program: {progs.show(sub)}\nafter ds[i] in the order {order}:\n{v.detail}')
    if rec is not None:
        m = ev(node)
        cls = progcheck.classes_of(node, m)
        cls.add('root-indexable' if m.indexable else ('root-sized' if m.sized else 'root-neither'))
        ops = set(progs.ops(node))
        nt = m.n >= 2 and (m.indexable or m.sized) and bool(
            ops & TRANSLATING or any(n['op'] == 'list' and n['mode'] == 'wu' for n in progs.walk(node)))
        rec.case({'program': progs.show(node), 'ast': node, 'len': m.n, 'indexed_nodes': indexed}, nt, cls,
                 size=progs.size(node))


PARTNERS = ['plain', 'reshuffle', 'prefetch1', 'local_shuffle', 'cycle_free_map']


def check_zip_lengths(case):
    """zip / key-less combinations of inputs with DIFFERENT lengths, one of them sized but not indexable: either the
    library refuses to build it, or what it builds reports the length it yields."""
    import lazy_dataset
    import numpy as np
    n1, n2, kind, first = case['n1'], case['n2'], case['partner'], case['first']
    a = lazy_dataset.new(list(range(n1)))
    b = lazy_dataset.new(list(range(100, 100 + n2)))
    if kind == 'reshuffle':
        b = b.shuffle(True, rng=np.random.RandomState(1))
    elif kind == 'prefetch1':
        b = b.prefetch(1, 2)
    elif kind == 'local_shuffle':
        b = b.shuffle(True, rng=np.random.RandomState(1), buffer_size=2)
    elif kind == 'cycle_free_map':
        b = b.map(lambda x: x)
    parts = [a, b] if first else [b, a]
    desc = f'zip of lengths {[len(p) for p in parts]} (second input kind: {kind}, indexable: {[p.indexable for p in parts]})'
    try:
        z = parts[0].zip(parts[1])
    except Exception:
        return 'refused'
    try:
        ln = len(z)
    except Exception:
        return 'no-length'
    got, exc, _ = observe.take(lambda: z, 50)
    if exc is None and ln != len(got):
        raise Violation('len-wrong|zip-unequal', f'{desc}\nwas accepted; len() == {ln} but iteration yields {len(got)} '
                                                 f'examples: {got}')
    return 'accepted'


GROW_TOPS = ['plain', 'map', 'concat_self', 'concat_other', 'tile3', 'batch2', 'map_batch_map']


def check_growing_list(case):
    """Stages whose length follows their input, above a raw ListDataset over a list the caller appends to: after
    every append, len() still equals what iteration yields and ds[-1] is the last iterated example."""
    from lazy_dataset import core
    top, n, warm = case['top'], case['n'], case['warm']
    lst = [('s', i) for i in range(n)]
    raw = core.ListDataset(lst)
    other = core.ListDataset([('o', 0)])
    ds = {'plain': lambda: raw, 'map': lambda: raw.map(lambda x: x), 'concat_self': lambda: raw.concatenate(raw),
          'concat_other': lambda: raw.concatenate(other), 'tile3': lambda: raw.tile(3), 'batch2': lambda: raw.batch(2),
          'map_batch_map': lambda: raw.map(lambda x: x).batch(2).map(lambda b: b)}[top]()
    for step in range(3):
        if step or warm:
            got = list(ds)
            desc = f'{case} after {step} append(s): iteration yields {len(got)} examples'
            if len(ds) != len(got):
                raise Violation(f'len-wrong|growing-{top}', f'{desc}, len() == {len(ds)}')
            if got and ds[-1] != got[-1]:
                raise Violation(f'index-value|growing-{top}', f'{desc}; ds[-1] == {ds[-1]!r}, last iterated {got[-1]!r}')
            if got and ds[len(got) - 1] != got[-1]:
                raise Violation(f'index-value|growing-{top}', f'{desc}; ds[{len(got) - 1}] == {ds[len(got) - 1]!r}')
        lst.append(('s', 'new', step))


def replay(case):
    progcheck.setup_process()
    if 'top' in case and 'warm' in case:
        check_growing_list(case)
        return
    if 'partner' in case:
        check_zip_lengths(case)
        return
    check_program(case['ast'])


def run_shard(tier, idx, nshards, rec, known):
    out = progcheck.run(lambda node: check_program(node, rec), rec, known, 'full', N[tier], seed() * 1000 + idx)
    if out.violation:
        case, sig, detail = out.violation
        out.violation = ({'ast': case, 'program': progs.show(case)}, sig, detail)
        return [out]
    if idx == 0:
        from ..common import Outcome
        oz = Outcome()
        for n1 in range(0, 5):
            for n2 in range(0, 5):
                for kind in PARTNERS:
                    for first in (True, False):
                        case = {'n1': n1, 'n2': n2, 'partner': kind, 'first': first}
                        try:
                            res = check_zip_lengths(case)
                        except Violation as v:
                            if known.match(v.sig):
                                continue
                            oz.violation = (case, v.sig, v.detail)
                            return [out, oz]
                        rec.case(case, n1 != n2, ['zip-lengths', 'zip:' + res, 'partner:' + kind], size=n1 + n2)
        for top in GROW_TOPS:
            for n in (0, 1, 2, 3):
                for warm in (True, False):
                    case = {'top': top, 'n': n, 'warm': warm}
                    try:
                        check_growing_list(case)
                    except Violation as v:
                        if known.match(v.sig):
                            continue
                        oz.violation = (case, v.sig, v.detail)
                        return [out, oz]
                    rec.case(case, n >= 1, ['growing-list', 'top:' + top], size=n)
    # bounded-exhaustive part: every chain of <= ENUM_DEPTH[tier] stage templates over every small source
    return [out, progcheck.run_enum(lambda node: check_program(node, rec), rec, known, ENUM_DEPTH[tier], idx, nshards)]
