"""Shared shard runner for the four schedule-based checks."""
from .. import progcheck, sched_engine as E
from ..common import Violation, drive, h, seed


def summarise(case, tr):
    c = {k: v for k, v in case.items() if k != 'sched'}
    c['schedule'] = {'decisions': len(tr.sched.decisions), 'preemptions': tr.sched.preemptions,
                     'thread_sequence_hash': h(tr.sched.executed), 'mode': case['sched']['mode']}
    return c


def classes(case, tr):
    cls = {'kind:' + case['kind'], f'workers:{case["workers"]}', f'buffer:{case["buffer"]}',
           'stop:' + case.get('stop', {'kind': 'exhaust'})['kind'], 'sched:' + case['sched']['mode']}
    if case.get('with_key'):
        cls.add('with_key')
    if case.get('pauses'):
        cls.add('consumer-pauses')
    if tr.sched.preemptions:
        cls.add('preempted')
    if tr.sched.max_enabled >= 2:
        cls.add('>=2-runnable')
    if E.reordered(tr):
        cls.add('tasks-finished-out-of-order')
    if case.get('src_fail'):
        cls.add('source-fails')
    for e in list(case.get('src_fail', {}).values()) + list(case.get('fn_fail', {}).values()):
        cls.add('exc:' + e)
    if case.get('fn_fail'):
        cls.add('function-fails')
    if case.get('catch', False) is not False:
        cls.add('catch')
    if tr.stopped_by_consumer:
        cls.add('stopped-by-consumer')
    return cls


def run_profile(profile, judge, nontrivial, rec, known, n_examples, hseed):
    progcheck.setup_process()

    def check(case):
        tr = E.run_case(case)
        if tr.os_alive:
            raise RuntimeError(f'harness: OS threads still alive after the case: {tr.os_alive}')
        judge(tr)
        rec.case(summarise(case, tr), nontrivial(case, tr), classes(case, tr), size=case['n'])

    return drive(check, E.st_case(profile), n_examples, rec, known, hseed)


def replay_with(judge):
    def replay(case):
        progcheck.setup_process()
        tr = E.run_case(case)
        judge(tr)
    return replay


def run_pools(profile, rec, known, n_examples, hseed):
    """Real worker pools (all five backends) with delay tables: completion order is perturbed, not owned."""
    from .. import workers as W
    progcheck.setup_process()

    def check(case):
        out = W.run_pool_case(case)
        W.judge_pool(case, out)
        nt = case['n'] >= 5 and case['workers'] >= 2 and len(set(case['delays'])) > 1 or profile != 'plain'
        cls = {'pool:' + case['backend'], 'pool-api:' + case['api'], 'pool-run'}
        if case.get('fn_fail'):
            cls.add('pool-function-fails')
        if case.get('stop') is not None:
            cls.add('pool-early-stop')
        rec.case(dict(case, part='pools'), bool(nt), cls, size=case['n'])

    return drive(check, W.st_pool_case(profile), n_examples, rec, known, hseed, shrink=False)
