"""Shared shard runner for the four schedule-based checks."""
from .. import progcheck, sched_engine as E
from ..common import Violation, drive, h, seed


def summarise(case, tr):
    c = {k: v for k, v in case.items() if k != 'sched'}
    c['schedule'] = {'decisions': len(tr.sched.decisions), 'preemptions': tr.sched.preemptions,
                     'thread_sequence_hash': h(tr.sched.executed), 'mode': case['sched']['mode']}
    return c


def classes(case, tr):
    cls = {'kind:' + case['kind'], f'workers:{case["workers"]}', f'buffer:{case["buffer"]}',
           'stop:' + case.get('stop', {'kind': 'exhaust'})['kind'], 'sched:' + case['sched']['mode']}
    if case.get('with_key'):
        cls.add('with_key')
    if case.get('pauses'):
        cls.add('consumer-pauses')
    if tr.sched.preemptions:
        cls.add('preempted')
    if tr.sched.max_enabled >= 2:
        cls.add('>=2-runnable')
    if E.reordered(tr):
        cls.add('tasks-finished-out-of-order')
    if case.get('src_fail'):
        cls.add('source-fails')
    for e in list(case.get('src_fail', {}).values()) + list(case.get('fn_fail', {}).values()):
        cls.add('exc:' + e)
    if case.get('fn_fail'):
        cls.add('function-fails')
    if case.get('catch', False) is not False:
        cls.add('catch')
    if tr.stopped_by_consumer:
        cls.add('stopped-by-consumer')
    return cls


def run_profile(profile, judge, nontrivial, rec, known, n_examples, hseed):
    progcheck.setup_process()

    def check(case):
        tr = E.run_case(case)
        if tr.os_alive:
            raise RuntimeError(f'harness: OS threads still alive after the case: {tr.os_alive}')
        judge(tr)
        rec.case(summarise(case, tr), nontrivial(case, tr), classes(case, tr), size=case['n'])

    return drive(check, E.st_case(profile), n_examples, rec, known, hseed)


def replay_with(judge):
    def replay(case):
        progcheck.setup_process()
        tr = E.run_case(case)
        judge(tr)
    return replay


def run_pools(profile, rec, known, n_examples, hseed):
    """Real worker pools (all five backends) with delay tables: completion order is perturbed, not owned."""
    from .. import workers as W
    progcheck.setup_process()

    def check(case):
        from ..common import Inconclusive
        try:
            out = W.run_pool_case(case)
        except Inconclusive:
            # a watchdog expiry is never a verdict: count it, clean up stray worker processes, go on
            rec.extra['pool_runs_inconclusive'] = rec.extra.get('pool_runs_inconclusive', 0) + 1
            rec.case(dict(case, part='pools', inconclusive=True), False, {'pool-inconclusive'})
            import multiprocessing
            for ch in multiprocessing.active_children():
                ch.terminate()
            return
        W.judge_pool(case, out)
        nt = case['n'] >= 5 and case['workers'] >= 2 and len(set(case['delays'])) > 1 or profile != 'plain'
        cls = {'pool:' + case['backend'], 'pool-api:' + case['api'], 'pool-run'}
        if case.get('fn_fail'):
            cls.add('pool-function-fails')
        if case.get('stop') is not None:
            cls.add('pool-early-stop')
        rec.case(dict(case, part='pools'), bool(nt), cls, size=case['n'])

    # a fixed set of cases for every backend first (each backend meets each sub-oracle at least once), then random ones
    from ..common import Outcome
    out = Outcome()
    for case in fixed_pool_cases(profile):
        try:
            check(case)
        except Violation as v:
            if known.match(v.sig):
                rec.known_hits[v.sig.split('|')[0]] += 1
                continue
            out.violation = (case, v.sig, v.detail)
            return out
    o2 = drive(check, W.st_pool_case(profile), n_examples, rec, known, hseed, shrink=False)
    return o2


def fixed_pool_cases(profile):
    from .. import workers as W
    cases = []
    for be in W.BACKENDS:
        if profile == 'plain':
            cases.append({'backend': be, 'api': 'lpm', 'n': 5, 'workers': 2, 'buffer': 3, 'delays': [8, 0, 4, 0, 1]})
            cases.append({'backend': be, 'api': 'pm', 'n': 5, 'workers': 3, 'buffer': 3, 'delays': [8, 0, 4, 0, 1],
                          'with_key': True})
            # an EMPTY dataset through every API of every backend (an empty validation split), and a single example
            for api in ('lpm', 'pm', 'pf'):
                cases.append({'backend': be, 'api': api, 'n': 0, 'workers': 2, 'buffer': 2, 'delays': []})
                cases.append({'backend': be, 'api': api, 'n': 1, 'workers': 3, 'buffer': 4, 'delays': [1]})
            cases.append({'backend': be, 'api': 'pf', 'n': 12, 'workers': 2, 'buffer': 4,
                          'delays': [4, 0, 0, 8, 0, 1, 0, 0, 2, 0, 0, 0], 'src': 'dict'})
            # a history of short iterations with DIFFERENT functions in one process (per-process caches of
            # serialised functions, pools that are re-used between iterations)
            for k in range(8):
                cases.append({'backend': be, 'api': 'lpm' if k % 2 else 'pm', 'n': 3, 'workers': 2, 'buffer': 2,
                              'delays': [0, 1, 0], 'salt': 1000 + k})
            # examples that are arrays, exception objects, falsy or refuse ==/bool()/len(): on every backend, through
            # the pool path and (thread backend) the single-thread hand-over
            for k, vk in enumerate(('ndarray', 'exc', 'touchy', 'falsy')):
                cases.append({'backend': be, 'api': ('lpm', 'pm', 'pf')[k % 3], 'n': 4, 'workers': 2, 'buffer': 2,
                              'delays': [2, 0, 1, 0], 'vk': vk, 'salt': 50 + k})
            if be in ('t', 'mp', 'dill_mp'):
                cases.append({'backend': be, 'api': 'pm', 'n': 4, 'workers': 2, 'buffer': 2, 'delays': [0, 1, 0, 0],
                              'src_lambda': True})
            # a None example in the source (the input of the function), mid-stream
            cases.append({'backend': be, 'api': 'pm', 'n': 5, 'workers': 2, 'buffer': 2, 'delays': [0, 1, 0, 0, 0],
                          'src_none': 2})
            cases.append({'backend': be, 'api': 'lpm', 'n': 5, 'workers': 2, 'buffer': 3, 'delays': [0, 1, 0, 0, 0],
                          'src_none': 0})
            if be == 't':
                for vk in ('ndarray', 'exc', 'touchy', 'falsy'):
                    cases.append({'backend': be, 'api': 'pf', 'n': 4, 'workers': 1, 'buffer': 2,
                                  'delays': [0, 1, 0, 0], 'vk': vk})
        elif profile == 'stop':
            for api in ('lpm', 'pm', 'pf'):
                cases.append({'backend': be, 'api': api, 'n': 30, 'workers': 2, 'buffer': 16, 'delays': [30] * 30,
                              'stop': 2, 'markers': True, 'check_cancel': True})
            cases.append({'backend': be, 'api': 'pf', 'n': 12, 'workers': 2, 'buffer': 2, 'delays': [20] * 12,
                          'stop': 1, 'markers': True, 'check_cancel': False})
        elif profile == 'readahead':
            for api, w, b in (('lpm', 2, 2), ('pm', 2, 3), ('pf', 1, 2)):
                cases.append({'backend': be, 'api': api, 'n': 16, 'workers': w, 'buffer': b, 'delays': [2] * 16,
                              'markers': True, 'readahead': True, 'pauses': 4})
            if be in ('t', 'mp', 'dill_mp'):
                cases.append({'backend': be, 'api': 'pf', 'n': 16, 'workers': 2, 'buffer': 2, 'delays': [2] * 16,
                              'markers': True, 'readahead': True, 'pauses': 4, 'catch': True})
        elif profile == 'fault':
            cases.append({'backend': be, 'api': 'lpm', 'n': 5, 'workers': 2, 'buffer': 3, 'delays': [8, 0, 4, 0, 1],
                          'fn_fail': {'2': 'VErrB'}})
            cases.append({'backend': be, 'api': 'pm', 'n': 5, 'workers': 2, 'buffer': 4, 'delays': [0, 8, 0, 0, 0],
                          'fn_fail': {'1': 'VErrC', '3': 'VErrA'}})
            if be in ('t', 'mp', 'dill_mp'):
                # catching enabled, nothing raises, but the VALUES are exception objects of the caught type
                cases.append({'backend': be, 'api': 'pf', 'n': 5, 'workers': 2, 'buffer': 2, 'delays': [0, 2, 0, 1, 0],
                              'vk': 'exc', 'catch': ['VErrA', 'VErrC']})
            if be == 't':
                # an exception whose instances are falsy, through the single-thread hand-over (lazy_dataset's own code;
                # concurrent.futures.Future itself loses such exceptions - `if self._exception:` - so the pool paths
                # are outside the domain for this one)
                cases.append({'backend': be, 'api': 'pf', 'n': 5, 'workers': 1, 'buffer': 2, 'delays': [0] * 5,
                              'fn_fail': {'3': 'VFalsy'}})
            if be in ('t', 'mp', 'dill_mp'):
                cases.append({'backend': be, 'api': 'pf', 'n': 5, 'workers': 2, 'buffer': 2, 'delays': [2, 8, 0, 4, 0],
                              'fn_fail': {'0': 'VErrC', '3': 'VErrA'}, 'catch': ['VErrA', 'VErrC']})
                cases.append({'backend': be, 'api': 'pf', 'n': 5, 'workers': 2, 'buffer': 2, 'delays': [2, 8, 0, 4, 0],
                              'fn_fail': {'1': 'VErrB', '3': 'VErrC'}, 'catch': 'VErrA'})
    return cases


def run_dfs(workloads, judge, nontrivial, rec, known, idx, nshards):
    """Bounded-exhaustive part: every schedule with <= k preemptions (k per workload) of every listed workload."""
    from ..common import Outcome
    progcheck.setup_process()
    out = Outcome()
    total = 0
    for wi, (wl, k) in enumerate(workloads):
        if wi % nshards != idx:
            continue

        def on_run(case, tr):
            rec.case(summarise(case, tr), nontrivial(case, tr), classes(case, tr) | {'dfs', f'dfs-preemptions<={k}'},
                     size=case['n'])
        try:
            total += E.dfs_schedules(wl, k, judge, on_run)
        except Violation as v:
            if known.match(v.sig):
                rec.known_hits[v.sig.split('|')[0]] += 1
                continue
            # the failing schedule is the last one executed: rebuild it from the message-free state
            out.violation = (getattr(v, 'case', wl), v.sig, v.detail)
            return out
    rec.extra['dfs_runs'] = rec.extra.get('dfs_runs', 0) + total
    rec.extra['dfs_workloads'] = rec.extra.get('dfs_workloads', 0) + sum(
        1 for wi in range(len(workloads)) if wi % nshards == idx)
    return out


def dfs_workloads(profile, tier):
    """(workload, max preemptions) pairs, exhaustive within the bound."""
    nmax = 2 if tier == 'quick' else 3
    out = []
    for n in range(1, nmax + 1):
        stp_k = 2 if tier == 'quick' else 3
        pool_k = 1 if (tier == 'quick' and profile != 'plain') else 2
        if tier == 'thorough' and n == 3 and profile != 'plain':
            pool_k = 1
        base = []
        for b in (1, 2):
            base.append(({'kind': 'stp', 'n': n, 'workers': 1, 'buffer': b}, stp_k))
        for kind in ('lpm', 'pf', 'pm'):
            for w, b in ((1, 1), (2, 2)):
                wl = {'kind': kind, 'n': n, 'workers': w, 'buffer': b}
                base.append((wl, pool_k))
            base.append(({'kind': kind, 'n': n, 'workers': 2, 'buffer': 3, 'with_key': kind == 'pm'}, min(pool_k, 1)))
        if profile == 'plain' and n == 2:
            # worker threads index INTO core.py stages that build something lazily on first use: every schedule with
            # one preemption at any core.py / parallel_utils.py line
            for src in ('keyzip_sel', 'concat'):
                base.append(({'kind': 'pf', 'n': n, 'workers': 2, 'buffer': 2, 'src': src, 'trace_core': True}, 1))
            # a memory cache between the function and the prefetch, examples with Python-level pickling hooks, two
            # passes: concurrent misses store concurrently, the second pass reads what was stored
            base.append(({'kind': 'pf', 'n': n, 'workers': 2, 'buffer': 2, 'cache_below': True, 'trace_core': True,
                          'vk': 'touchy', 'epochs': 2, 'src': 'list'}, 1))
        for wl, k in base:
            if profile == 'plain':
                out.append((wl, k))
            elif profile == 'stop':
                for stopk in range(0, n + 1):
                    out.append((dict(wl, stop={'kind': 'close', 'k': stopk}), k))
                out.append((dict(wl, stop={'kind': 'del', 'k': max(0, n - 1)}), k))
                out.append((dict(wl, stop={'kind': 'throw', 'k': max(0, n - 1)}), min(k, 1)))
                out.append((dict(wl, stop={'kind': 'close_other', 'k': max(0, n - 1)}), min(k, 1)))
                if wl['kind'] in ('lpm', 'pm') and wl['workers'] == 2 and wl['buffer'] == 2 and n == 2:
                    # a single-thread prefetch below the parallel map, the consumer stops with tasks still pending
                    out.append((dict(wl, n=4, buffer=3, under_pf1=1, stop={'kind': 'close', 'k': 1}), 1))
                if wl['kind'] in ('lpm', 'pm') and wl['buffer'] >= 2 and n >= 2:
                    # the input fails late, its buffered predecessors are being delivered, the consumer stops there
                    out.append((dict(wl, n=n + 1, src_fail={str(n): 'VErrA'}, stop={'kind': 'close', 'k': 1}), min(k, 1)))
            elif profile == 'fault':
                for pos in range(n):
                    for where in ('src_fail', 'fn_fail'):
                        for exc in ('VErrA', 'VBase'):
                            if exc == 'VBase' and pos != n - 1:
                                continue
                            out.append((dict(wl, **{where: {str(pos): exc}}), k))
                    if wl['kind'] == 'pf' and not wl.get('with_key'):
                        # catching enabled: a listed type is dropped, every other type (also an IndexError raised
                        # by the user function) still surfaces at its position
                        for exc in ('VErrA', 'IndexError'):
                            out.append((dict(wl, fn_fail={str(pos): exc}, catch='VErrA'), min(k, 1)))
                        # a catch set that lists a BaseException-only class: dropped like any other listed class
                        out.append((dict(wl, fn_fail={str(pos): 'VBase'}, catch=['VBase', 'VErrA']), min(k, 1)))
                    if wl['kind'] == 'pf' and not wl.get('with_key') and n >= 2:
                        out.append((dict(wl, src='keyzip_concat', fn_fail={str(pos): 'KeyError'}), min(k, 1)))
                    if wl['kind'] in ('lpm', 'pm') or (wl['kind'] == 'pf' and wl['workers'] > 1):
                        # the function raises StopIteration (a bare next() inside it): whatever it is turned into, the
                        # stream must not end silently there
                        out.append((dict(wl, fn_fail={str(pos): 'StopIteration'}), min(k, 1)))
    return out
