"""C09 - examples handed out are isolated from the stored data (access / mutation histories)."""
import copy
import shutil
import tempfile

import numpy as np
from hypothesis import strategies as st

from .. import progcheck
from ..common import Violation, drive, seed

PID = 'C09'
RULE = ('Hypothesis histories (whole history shrinks as one value): storage in {new pickle, new copy, from_list wu, '
        'cache() over a raw mutable upstream, cache(lazy=False), diskcache(), cache() with free memory below the '
        'threshold} x container (list / dict) x payload '
        '(nested dict with list, dict and numpy array; tuple with mutable members; bare array; top-level object array '
        'with mutable members; top-level 1 MiB array; str / float subclass instances with mutable attributes; examples that cannot be pickled - a cache may refuse them, never '
        'hand out shared objects) x a sequence of steps: read by '
        'index / negative index / numpy index / key / slice-then-index / full iteration / items() / through copy() '
        '/ through a slice view, then mutate what was returned (set, append, delete, clear, nested, in-place array '
        'arithmetic), and for pickle / wu mutate the ORIGINAL container and its examples. Oracle: after every step a '
        'full scan (iteration, every index, every key, items) equals a pristine deep snapshot taken at construction. '
        'Non-trivial: a mutation followed by a read of the same example through a different access path; distinct '
        'by case JSON.')
ASSUMPTIONS = [
    'copy mode is exempt from the "original container" clause, as the statement says',
    'CacheDataset(immutable_warranty="copy") is not reachable through Dataset.cache() and is not part of the domain',
    'psutil.virtual_memory is patched to "plenty" so that the memory cache always caches (threshold crossings: C10)',
]
N = {'quick': 500, 'thorough': 2500}
STORAGES = ['new_pickle', 'new_copy', 'wu', 'cache', 'cache_eager', 'diskcache', 'cache_short', 'cache_over_copy',
            'new_file']
READS = ['idx', 'neg', 'np', 'key', 'slice', 'iter', 'items', 'copy', 'copyf', 'view', 'iter_mut', 'items_mut',
         'prefetch_twice', 'cycle_mut', 'iter_lookahead']
MUTS = ['set', 'append', 'del', 'clear', 'nested', 'array', 'array_scale']
BIG = 131072


def plan(tier):
    return {'shards': 4 if tier == 'quick' else 16}


class TaggedStr(str):
    """A str subclass that carries mutable attributes (an utterance id with its metadata): looks like a scalar."""


class TaggedFloat(float):
    pass


def make_example(kind, i):
    if kind == 'attr_scalar':
        ex = TaggedStr(f'utt{i}') if i % 2 == 0 else TaggedFloat(i + 0.5)
        ex.meta = {'tags': [i], 'n': i}
        return ex
    if kind == 'array':
        return np.arange(4, dtype=np.int64) + 10 * i
    if kind == 'bigarray':
        return np.arange(BIG, dtype=np.float64) + i  # a top-level array of exactly 1 MiB
    if kind == 'json':
        return {'id': i, 'tags': [i, i + 1], 'meta': {'k': [i], 'd': {'x': i}}}  # what a JSON file can hold
    if kind == 'str':
        return f'utt{i}'  # every example is a plain str (a list of file names)
    if kind == 'npvoid':
        # a numpy structured scalar: looks like a scalar, is mutable in place
        return np.array([(i, i + 0.5)], dtype=[('a', 'i4'), ('b', 'f4')])[0]
    if kind == 'unpicklable':
        return {'id': i, 'tags': [i, i + 1], 'fn': (lambda: i)}  # cannot be pickled: a cache may refuse it, not leak it
    if kind == 'objarray':
        a = np.empty(2, dtype=object)  # a top-level object array: its members are ordinary mutable containers
        a[0] = {'id': i, 'tags': ['a']}
        a[1] = [i, i + 1]
        return a
    if kind == 'dict':
        return {'id': i, 'tags': [i, i + 1], 'meta': {'k': [i], 'd': {'x': i}}, 'arr': np.arange(3) + i}
    return ([i, i + 1], {'lab': [i]}, 'x%d' % i, np.arange(2) + i)


def deq(a, b):
    if isinstance(a, np.void) or isinstance(b, np.void):
        return type(a) is type(b) and a.dtype == b.dtype and a.tolist() == b.tolist()
    if isinstance(a, np.ndarray) or isinstance(b, np.ndarray):
        return isinstance(a, np.ndarray) and isinstance(b, np.ndarray) and a.dtype == b.dtype and a.shape == b.shape \
            and bool(np.array_equal(a, b))
    if type(a) is not type(b):
        return False
    if isinstance(a, (TaggedStr, TaggedFloat)):
        return (str if isinstance(a, str) else float)(a) == (str if isinstance(b, str) else float)(b) \
            and deq(vars(a), vars(b))
    if isinstance(a, dict):
        return list(a.keys()) == list(b.keys()) and all(deq(a[k], b[k]) for k in a)
    if isinstance(a, (list, tuple)):
        return len(a) == len(b) and all(deq(x, y) for x, y in zip(a, b))
    return a == b


def mutate(obj, kind):
    """Mutate an example (or an (key, example) pair) in place. Returns True if something was changed."""
    if isinstance(obj, tuple) and len(obj) == 2 and isinstance(obj[0], str):
        obj = obj[1]  # items() pair
    if isinstance(obj, np.void):
        obj['a'] = -99
        obj['b'] = 0.25
        return True
    if isinstance(obj, (TaggedStr, TaggedFloat)):
        if kind in ('del', 'clear'):
            obj.meta.clear()
        else:
            obj.meta['tags'].append('changed')
            obj.extra = kind
        return True
    if isinstance(obj, np.ndarray) and obj.dtype == object:
        if kind in ('set', 'del', 'clear'):
            obj[1] = 'replaced'
        else:
            obj[0]['tags'].append('first')
            if isinstance(obj[1], list):
                obj[1].append('first')
        return True
    if isinstance(obj, np.ndarray):
        obj[0] = -99
        obj *= 2
        return True
    if isinstance(obj, dict):
        if kind == 'set':
            obj['id'] = -7
        elif kind == 'append':
            obj.setdefault('tags', []).append(99)
        elif kind == 'del':
            obj.pop('tags', None)
        elif kind == 'clear':
            obj.clear()
        elif kind == 'nested':
            if 'meta' in obj:
                obj['meta']['d']['x'] = 'changed'
                obj['meta']['k'].clear()
        elif kind == 'array':
            if 'arr' in obj:
                obj['arr'][0] = 1234
        elif kind == 'array_scale':
            if 'arr' in obj:
                obj['arr'] *= 3
                obj['arr'] += 1
        return True
    if isinstance(obj, tuple):
        if kind in ('set', 'append', 'clear'):
            obj[0].append(99) if kind != 'clear' else obj[0].clear()
        elif kind in ('del', 'nested'):
            obj[1]['lab'].append('z')
            obj[1]['new'] = 1
        else:
            arr = obj[3]
            arr[0] = 1234
            arr *= 2
        return True
    return False


class World:
    def __init__(self, case):
        import lazy_dataset
        from lazy_dataset import core
        self.case = case
        n, cont, pay, storage = case['n'], case['container'], case['payload'], case['storage']
        self.keys = ['k%d' % i for i in range(n)] if cont == 'dict' else None
        exs = [make_example(pay, i) for i in range(n)]
        self.snapshot = copy.deepcopy(exs)
        self.original = dict(zip(self.keys, exs)) if cont == 'dict' else list(exs)
        self.tmp = None
        if storage == 'new_file':
            # a dataset built from a JSON file (lazy_dataset.new(path)): the parsed content is the stored data
            import json
            self.tmp = tempfile.mkdtemp(prefix='verif_c09_')
            path = self.tmp + '/data.json'
            with open(path, 'w') as f:
                json.dump(self.original, f)
            self.ds = lazy_dataset.new(path if n % 2 else __import__('pathlib').Path(path))
        elif storage in ('new_pickle', 'new_copy'):
            self.ds = lazy_dataset.new(self.original, immutable_warranty=storage.split('_')[1])
        elif storage == 'wu':
            self.ds = lazy_dataset.from_list(self.original, immutable_warranty='wu')
        else:
            raw = core.DictDataset(self.original) if cont == 'dict' else core.ListDataset(self.original)
            if storage == 'cache_short':
                # free memory is below the threshold from the start: nothing is cached, every value still comes from
                # the (pickle-protected) pipeline and is the consumer's own
                import psutil
                self._saved_vm = psutil.virtual_memory
                psutil.virtual_memory = lambda: __import__('types').SimpleNamespace(total=64 * 2 ** 30,
                                                                                     available=2 ** 20)
                self.ds = lazy_dataset.new(self.original).map(lambda x: x).cache()
            elif storage == 'cache_over_copy':
                # a memory cache above a source that was built in copy mode: still a (pickling) cache
                self.ds = lazy_dataset.new(self.original, immutable_warranty='copy').cache()
            elif storage == 'cache':
                self.ds = raw.cache()
            elif storage == 'cache_eager':
                self.ds = raw.cache(lazy=False)
            else:
                self.tmp = tempfile.mkdtemp(prefix='verif_c09_')
                self.ds = raw.diskcache(self.tmp, reuse=False, clear=True)
        self.copy = None
        self.copyf = None
        self.view = None

    def close(self):
        if getattr(self, '_saved_vm', None) is not None:
            import psutil
            psutil.virtual_memory = self._saved_vm
        self.ds = self.copy = self.copyf = self.view = None
        import gc
        gc.collect()
        if self.tmp:
            shutil.rmtree(self.tmp, ignore_errors=True)

    def read(self, how, pos):
        n = self.case['n']
        ds = self.ds
        p = pos % n
        if how == 'idx':
            return [(p, ds[p])]
        if how == 'neg':
            return [(p, ds[p - n])]
        if how == 'np':
            return [(p, ds[np.int64(p)])]
        if how == 'key':
            if self.keys is None:
                return [(p, ds[p])]
            return [(p, ds[self.keys[p]])]
        if how == 'slice':
            a = pos % (n + 1)
            sub = ds[a:]
            if len(sub) == 0:
                return []
            return [(a, sub[0])]
        if how == 'iter':
            return list(enumerate(ds))
        if how == 'items':
            if self.keys is None:
                return list(enumerate(ds))
            return list(enumerate(ds.items()))
        if how == 'copy':
            if self.copy is None:
                self.copy = ds.copy()
            return [(p, self.copy[p])]
        if how == 'copyf':
            if self.copyf is None:
                self.copyf = ds.copy(freeze=True)
            return [(p, self.copyf[p])]
        if how in ('iter_mut', 'items_mut'):
            # the consumer mutates every example inside the loop body, i.e. between two next() calls
            out = []
            it = ds.items() if (how == 'items_mut' and self.keys is not None) else ds
            for i, obj in enumerate(it):
                out.append((i, copy.deepcopy(obj)))
                mutate(obj, 'set')
                mutate(obj, 'array')
            return [(i, o) for i, o in out] + [('mutated-in-loop', None)]
        if how == 'iter_lookahead':
            # while an iteration is at position p the consumer looks AHEAD by index (the last example), changes what
            # it got and goes on iterating: the pass still delivers the stored example when it gets there
            out = []
            for i, obj in enumerate(ds):
                out.append((i, copy.deepcopy(obj)))
                if i == p and p < n - 1:
                    ahead = ds[n - 1]
                    out.append((n - 1, copy.deepcopy(ahead)))
                    mutate(ahead, 'set')
                    mutate(ahead, 'array')
            return out + [('mutated-in-loop', None)]
        if how == 'cycle_mut':
            # two rounds through ds.cycle(), every example changed as soon as it is received: the second round hands
            # out fresh examples again, not the objects of the first
            import itertools
            out = []
            it = iter(ds.cycle())
            try:
                for j, obj in enumerate(itertools.islice(it, 2 * n)):
                    out.append((j % n, copy.deepcopy(obj)))
                    mutate(obj, 'set')
                    mutate(obj, 'array')
            finally:
                if hasattr(it, 'close'):
                    it.close()
            return out + [('mutated-in-loop', None)]
        if how == 'prefetch_twice' and self.case['storage'] in ('cache', 'diskcache'):
            # two concurrent misses of a lazy cache over the RAW upstream would both hand out the upstream's own
            # object (an artefact of the raw upstream, not of the cache): use a plain read there
            return [(p, ds[p])]
        if how == 'prefetch_twice':
            # an index visited twice in one epoch behind a stage that freezes its input
            view = ds[[p, p]].prefetch(2, 2)
            got = []
            for obj in view:
                got.append((p, copy.deepcopy(obj)))
                mutate(obj, 'append')
                mutate(obj, 'array')
            return got + [('mutated-in-loop', None)]
        if how == 'view':
            if self.view is None:
                self.view = ds[::-1]
            return [(n - 1 - p, self.view[p])]
        raise ValueError(how)

    def scan(self, step):
        ds, snap, n = self.ds, self.snapshot, self.case['n']
        desc = f'{self.case_desc()} after step {step}'
        full = list(ds)
        if not deq(full, snap):
            raise Violation(f'scan-iteration|{self.case["storage"]}', f'{desc}\nlist(ds) == {full}\npristine {snap}')
        for i in range(n):
            for v, how in ((ds[i], f'ds[{i}]'), (ds[i - n], f'ds[{i - n}]')):
                if not deq(v, snap[i]):
                    raise Violation(f'scan-index|{self.case["storage"]}', f'{desc}\n{how} == {v}\npristine {snap[i]}')
        if self.keys is not None:
            for i, k in enumerate(self.keys):
                v = ds[k]
                if not deq(v, snap[i]):
                    raise Violation(f'scan-key|{self.case["storage"]}', f'{desc}\nds[{k!r}] == {v}\npristine {snap[i]}')
            items = list(ds.items())
            if not deq(items, list(zip(self.keys, snap))):
                raise Violation(f'scan-items|{self.case["storage"]}', f'{desc}\nitems() == {items}')
        if self.copy is not None and not deq(list(self.copy), snap):
            raise Violation(f'scan-copy|{self.case["storage"]}', f'{desc}\nlist(copy) == {list(self.copy)}')
        if self.copyf is not None and not deq(list(self.copyf), snap):
            raise Violation(f'scan-frozen-copy|{self.case["storage"]}', f'{desc}\nlist(copy(freeze=True)) == '
                                                                        f'{list(self.copyf)}')
        if self.view is not None and not deq(list(self.view), snap[::-1]):
            raise Violation(f'scan-view|{self.case["storage"]}', f'{desc}\nlist(ds[::-1]) == {list(self.view)}')

    def case_desc(self):
        c = self.case
        return f"storage={c['storage']} container={c['container']} payload={c['payload']} n={c['n']} steps={c['steps']}"


def check(case):
    """Returns the number of (mutation, later read through a different path) pairs."""
    w = World(case)
    try:
        # no scan at construction: a scan is itself a set of accesses and would warm every cache path before the
        # first mutation; scans happen where the history asks for them and at the end
        mutated = {}  # position -> access path used when it was mutated
        crossings = 0
        for si, step in enumerate(case['steps']):
            if step[0] == 'read':
                _, how, pos, mut = step
                try:
                    got = w.read(how, pos)
                except Exception as e:
                    if case['payload'] == 'unpicklable' and case['storage'] == 'cache':
                        continue  # the cache refuses what it cannot serialise (documented pickle warranty): fine
                    raise Violation(f'read-raised-{how}|{case["storage"]}',
                                    f'{w.case_desc()}\nstep {si}: read {how} at {pos} raised {type(e).__name__}: {e}')
                in_loop = any(p == 'mutated-in-loop' for p, _ in got)
                got = [(p, o) for p, o in got if p != 'mutated-in-loop']
                if in_loop:
                    for p, _ in got:
                        mutated[p] = how
                for p, obj in got:
                    if p in mutated and mutated[p] != how:
                        crossings += 1
                    if not deq(obj[1] if (how in ('items', 'items_mut') and w.keys is not None) else obj,
                               w.snapshot[p]):
                        raise Violation(f'read-{how}|{case["storage"]}',
                                        f'{w.case_desc()}\nstep {si}: read {how} of position {p} returned {obj}\n'
                                        f'pristine {w.snapshot[p]}')
                if mut is not None:
                    for p, obj in got:
                        if mutate(obj, mut):
                            mutated[p] = how
            elif step[0] == 'mutate_original':
                _, pos, mut = step
                if case['storage'] in ('new_pickle', 'wu') and case['n']:
                    p = pos % case['n']
                    orig = w.original
                    key = w.keys[p] if w.keys is not None else p
                    if mut == 'replace':
                        orig[key] = 'replaced'
                    elif mut == 'remove' and w.keys is not None:
                        orig.pop(key, None)
                    elif mut == 'extend' and w.keys is None:
                        orig.append('extra')
                    else:
                        ex = orig.get(key) if w.keys is not None else orig[p]
                        if not isinstance(ex, str) and ex is not None:
                            mutate(ex, mut if mut in MUTS else 'set')
                    mutated.setdefault(p, 'original')
            elif step[0] == 'scan':
                try:
                    w.scan(si)
                except Violation:
                    raise
                except Exception as e:
                    if case['payload'] == 'unpicklable' and case['storage'] == 'cache':
                        continue
                    raise Violation(f'scan-raised|{case["storage"]}', f'{w.case_desc()}\nscan at step {si} raised '
                                                                      f'{type(e).__name__}: {e}')
        try:
            w.scan('end')
        except Violation:
            raise
        except Exception as e:
            if case['payload'] == 'unpicklable' and case['storage'] == 'cache':
                return crossings
            raise Violation(f'scan-raised|{case["storage"]}', f'{w.case_desc()}\nfinal scan raised '
                                                              f'{type(e).__name__}: {e}')
        return crossings
    finally:
        w.close()


def replay(case):
    progcheck.setup_process()
    check(case)


@st.composite
def st_case(draw):
    storage = draw(st.sampled_from(STORAGES))
    container = 'list' if storage == 'wu' else draw(st.sampled_from(['list', 'dict']))
    if storage == 'new_file':
        container = 'dict'
    n = draw(st.integers(1, 4))
    steps = []
    for _ in range(draw(st.integers(1, 8))):
        if draw(st.integers(0, 5)) == 0:
            steps.append(['scan'])
        elif storage in ('new_pickle', 'wu') and draw(st.integers(0, 4)) == 0:
            steps.append(['mutate_original', draw(st.integers(0, 7)),
                          draw(st.sampled_from(['replace', 'remove', 'extend', 'set', 'nested', 'array', 'clear']))])
        else:
            steps.append(['read', draw(st.sampled_from(READS)), draw(st.integers(0, 7)),
                          draw(st.sampled_from(MUTS + [None]))])
    payloads = ['dict', 'dict', 'dict', 'tuple', 'tuple', 'array', 'objarray', 'bigarray', 'attr_scalar', 'str',
                'npvoid']
    if storage == 'new_file':
        payloads = ['json']
    if storage in ('cache', 'new_copy'):
        payloads += ['unpicklable', 'unpicklable']
    return {'storage': storage, 'container': container, 'payload': draw(st.sampled_from(payloads)),
            'n': n, 'steps': steps}


def run_shard(tier, idx, nshards, rec, known):
    progcheck.setup_process()
    import shutil as _sh
    import types
    _sh.disk_usage = lambda p: types.SimpleNamespace(total=10 ** 13, used=0, free=10 ** 13)

    def one(case):
        crossings = check(case)
        cls = ['storage:' + case['storage'], 'container:' + case['container'], 'payload:' + case['payload']]
        cls += sorted({'read:' + s[1] for s in case['steps'] if s[0] == 'read'})
        cls += sorted({'mut:' + str(s[3]) for s in case['steps'] if s[0] == 'read' and s[3]})
        if any(s[0] == 'mutate_original' for s in case['steps']):
            cls.append('mutate-original')
        rec.case(case, crossings >= 1, cls, size=len(case['steps']))
    if idx == 0:
        # enumerated first: for every serialising storage x container x payload kind, the ORIGINAL container is
        # changed after construction (an entry replaced, an example edited in place, the list extended)
        from ..common import Outcome
        o0 = Outcome()
        for storage in ('new_pickle', 'wu'):
            for container in (('list',) if storage == 'wu' else ('list', 'dict')):
                for payload in ('dict', 'tuple', 'array', 'objarray', 'attr_scalar', 'str', 'npvoid'):
                    for first in (None, ['read', 'idx', 0, None], ['read', 'iter', 0, None]):
                        steps = ([first] if first else []) + [['mutate_original', 0, 'replace'],
                                                             ['mutate_original', 1, 'set'],
                                                             ['mutate_original', 2, 'extend'], ['scan']]
                        case = {'storage': storage, 'container': container, 'payload': payload, 'n': 3, 'steps': steps}
                        try:
                            one(case)
                        except Violation as v:
                            if known.match(v.sig):
                                continue
                            o0.violation = (case, v.sig, v.detail)
                            return [o0]
    if idx == 1 % nshards:
        # enumerated: the FIRST thing that happens to a cold cache (memory, disk) is a pass during which the consumer
        # looks ahead by index and edits what it got; every position of the pass, every container and payload kind
        from ..common import Outcome
        o1 = Outcome()
        for storage in ('cache', 'diskcache', 'cache_over_copy', 'new_pickle'):
            for container in ('list', 'dict'):
                for payload in ('dict', 'array', 'tuple'):
                    for p_ in (0, 1, 2):
                        for tail in ([], [['read', 'neg', 3, None]], [['read', 'iter_mut', 0, None]]):
                            case = {'storage': storage, 'container': container, 'payload': payload, 'n': 4,
                                    'steps': [['read', 'iter_lookahead', p_, None]] + tail + [['scan']]}
                            try:
                                one(case)
                            except Violation as v:
                                if known.match(v.sig):
                                    continue
                                o1.violation = (case, v.sig, v.detail)
                                return [o1]
    return [drive(one, st_case(), N[tier], rec, known, seed() * 1000 + idx)]
