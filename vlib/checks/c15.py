"""C15 - shards partition the dataset. Bounded-exhaustive over (n, k, i), list- and dict-backed."""
import numpy as np
from hypothesis import strategies as st

from .. import gen, observe, progcheck, progs
from ..common import Outcome, Violation, drive, seed
from ..refmodel import ev

PID = 'C15'
LEVEL = 'exploration'
RULE = ('exhaustive enumeration of (n, k, backing) with 0<=n<=N, every k in [-1, n+2], every shard index i (n <= 100; a spread of indices beyond) (and the '
        'negative / out-of-range ones for shard()); split(k) and shard(k, i) of list- and dict-backed datasets plus '
        'derived datasets (mapped, sliced, concatenated) as the thing being split; plus Hypothesis-generated indexable '
        'pipelines (C01 alphabet) split for every k against the reference value list. Oracle: arithmetic partition '
        'predicate over self-describing examples. Non-trivial = k>=2 and n mod k != 0; distinct by (n, k, backing).')
ASSUMPTIONS = [
    'the statement holds in an interpreter started with -O as well (n <= 6, every k, checked in a child process)',
    'shard counts and indices may be numpy integers (np.int64, np.int32, np.uint8) as well as Python ints',
    'examples are self-describing tuples, so provenance (loss, duplication, order) is decidable from values alone',
    'a shard count outside 1..n must raise an Exception (the code raises ValueError); n=0 therefore rejects every k',
]

N = {'quick': 80, 'thorough': 200}


def plan(tier):
    return {'shards': 4 if tier == 'quick' else 16, 'exhaustive': True}


def make(kind, n):
    import lazy_dataset
    if kind == 'list':
        return lazy_dataset.new([('s', i) for i in range(n)]), None
    if kind == 'dict':
        keys = [f'k{i:03d}' for i in range(n)]
        return lazy_dataset.new({k: ('s', i) for i, k in enumerate(keys)}), keys
    if kind == 'permuted':
        # a selection that covers a gap-free index range, starts at its minimum and ends at its maximum, but is NOT
        # sorted (inner neighbours swapped): what a "contiguous range" shortcut must not mistake for a range
        keys = [f'k{i:03d}' for i in range(n)]
        order = list(range(n))
        for j in range(1, n - 2, 2):
            order[j], order[j + 1] = order[j + 1], order[j]
        # values are numbered in selection order (so the partition predicate applies), keys follow the examples
        inv = {src: pos for pos, src in enumerate(order)}
        base = lazy_dataset.new({keys[src]: ('s', inv[src]) for src in range(n)})
        ds = base[np.array(order, dtype=np.int64)] if n else base
        return ds, [keys[src] for src in order]
    if kind == 'derived':
        # a mapped, concatenated and re-sliced dict dataset: split works on any indexable dataset
        a = n // 3
        keys = [f'k{i:03d}' for i in range(n)]
        d1 = lazy_dataset.new({k: i for i, k in enumerate(keys[:a])})
        d2 = lazy_dataset.new({k: i + a for i, k in enumerate(keys[a:])})
        ds = d1.concatenate(d2) if a else d2
        ds = ds.map(lambda x: ('s', x))[list(range(n))]
        return ds, keys
    raise ValueError(kind)


def check_one(kind, n, k, full=True):
    """Raises Violation. Returns the shard sizes."""
    ds, keys = make(kind, n)
    if keys is not None and (n + k) % 2 == 0:
        # the dataset was looked at before it is split (keys / items / a lookup): memoised answers of the whole
        # must not travel into the shards
        ds.keys()
        list(ds.items())
        if n:
            ds[keys[0]]
    if n and (n + 2 * k) % 3 == 0:
        # other datasets were DERIVED from the object before it is split (an epoch of shuffled tiles, a one-time
        # shuffle, a sorted view, a shard): what they computed is theirs, the object still splits in its own order
        try:
            list(ds.tile(2, shuffle=True))
            list(ds.shuffle(False))
            list(ds[::-1])
            if k >= 1 and k <= n:
                list(ds.shard(k, k - 1))
        except Exception as e:
            raise Violation('derive-before-split-raised', f'{kind} n={n} k={k}: {type(e).__name__}: {e}')
    expect = [('s', i) for i in range(n)]
    valid = 1 <= k <= n
    try:
        shards = ds.split(k)
    except Exception as e:
        if valid:
            raise Violation('split-raises', f'{kind} n={n} k={k}: split raised {e!r}')
        shards = None
    else:
        if not valid:
            raise Violation('invalid-count-accepted', f'{kind} n={n} k={k}: split returned {len(shards)} shards')
    if not valid:
        if k > n:
            # ... also when the count arrives as an unsigned numpy integer (differences wrap around there)
            for T in (np.uint8, np.uint16, np.uint64):
                try:
                    got = ds.split(T(k))
                except Exception:
                    continue
                raise Violation('invalid-count-accepted', f'{kind} n={n}: split({T.__name__}({k})) returned '
                                                          f'{[list(x) for x in got]}')
        try:
            got = ds.shard(k, 0)
        except Exception:
            return None
        raise Violation('invalid-count-accepted', f'{kind} n={n} k={k}: shard(k, 0) returned {list(got)!r}')
    if k == n:
        # a count strictly between n and n + 1 (or below 1) is not a valid count either
        for frac in (n + 0.5, 0.5):
            for how, call in (('split', lambda: ds.split(frac)), ('shard', lambda: ds.shard(frac, 0))):
                try:
                    got = call()
                except Exception:
                    continue
                raise Violation('invalid-count-accepted', f'{kind} n={n}: {how}({frac}) was accepted: '
                                                          f'{[list(x) for x in got] if how == "split" else list(got)}')
    if len(shards) != k:
        raise Violation('shard-count', f'{kind} n={n} k={k}: {len(shards)} shards')
    lists = [list(s) for s in shards]
    sizes = [len(x) for x in lists]
    flat = [e for x in lists for e in x]
    if flat != expect:
        raise Violation('not-a-partition', f'{kind} n={n} k={k}: concatenated shards {flat!r} != {expect!r}')
    if max(sizes) - min(sizes) > 1:
        raise Violation('unbalanced', f'{kind} n={n} k={k}: sizes {sizes}')
    if [len(s) for s in shards] != sizes:
        raise Violation('len-mismatch', f'{kind} n={n} k={k}: len() {[len(s) for s in shards]} vs {sizes}')
    if keys is not None:
        kflat = [kk for s in shards for kk in s.keys()]
        if kflat != keys:
            raise Violation('keys-partition', f'{kind} n={n} k={k}: keys {kflat!r}')
        for s, l in zip(shards, lists):
            if list(s.items()) != list(zip(s.keys(), l)):
                raise Violation('items-pairing', f'{kind} n={n} k={k}')
        if n <= 30:
            for si, s in enumerate(shards):
                own = set(s.keys())
                for kk in keys:
                    try:
                        v = s[kk]
                    except Exception:
                        if kk in own:
                            raise Violation('own-key-refused', f'{kind} n={n} k={k}: shard {si}[{kk!r}] raised')
                        continue
                    if kk not in own:
                        raise Violation('foreign-key-answered', f'{kind} n={n} k={k}: shard {si} answers key {kk!r} '
                                                                f'of another shard with {v!r}')
    # the returned list belongs to the caller: emptying / reordering it must not change later answers
    if n <= 40:
        again = ds.split(k)
        again.reverse()
        del again[:]
        third = [list(s) for s in ds.split(k)]
        if third != lists:
            raise Violation('split-not-repeatable', f'{kind} n={n} k={k}: after the caller modified the list returned '
                                                    f'by split(), split() returns {third} instead of {lists}')
        # integer indexing of every shard: every index in [-len-1, len]
        for si, sh in enumerate(shards):
            ln = sizes[si]
            for j in range(-ln - 1, ln + 1):
                try:
                    v = sh[j]
                except IndexError:
                    if -ln <= j < ln:
                        raise Violation('shard-index-raised', f'{kind} n={n} k={k} shard {si}[{j}] raised IndexError')
                    continue
                if not -ln <= j < ln:
                    raise Violation('shard-index-outside', f'{kind} n={n} k={k} shard {si}[{j}] returned {v!r}')
                if v != lists[si][j]:
                    raise Violation('shard-index-value', f'{kind} n={n} k={k} shard {si}[{j}] == {v!r}')
    if n <= 40:
        # shard counts / indices are often computed with numpy (len(ds) // np.int64(...), np.prod(...))
        for T in (np.int64, np.int32, np.uint8):
            try:
                alt = [list(x) for x in ds.split(T(k))]
            except Exception as e:
                raise Violation('numpy-count-refused', f'{kind} n={n}: split({T.__name__}({k})) raised {e!r}')
            if alt != lists:
                raise Violation('numpy-count-differs', f'{kind} n={n}: split({T.__name__}({k})) gave {alt}')
            i = k // 2
            try:
                one = list(ds.shard(T(k), T(i)))
            except Exception as e:
                raise Violation('numpy-count-refused', f'{kind} n={n}: shard({T.__name__}({k}), {T.__name__}({i})) '
                                                       f'raised {e!r}')
            if one != lists[i]:
                raise Violation('numpy-count-differs', f'{kind} n={n}: shard({T.__name__}({k}), {i}) gave {one}')
    if full:
        # every shard index for n <= 100, a spread of indices beyond (split itself is always checked completely)
        for i in (range(k) if n <= 100 else sorted({0, 1, k // 3, k // 2, k - 2, k - 1} & set(range(k)))):
            sh = ds.shard(k, i)
            if list(sh) != lists[i] or len(sh) != sizes[i]:
                raise Violation('shard-vs-split', f'{kind} n={n} k={k} i={i}: {list(sh)!r} != {lists[i]!r}')
            if keys is not None and list(sh.keys()) != list(shards[i].keys()):
                raise Violation('shard-vs-split-keys', f'{kind} n={n} k={k} i={i}')
        # shard index outside 0..k-1: negative ones are ordinary Python indices of the split list, k itself raises
        for i in (-1, -k):
            sh = ds.shard(k, i)
            if list(sh) != lists[i]:
                raise Violation('shard-vs-split', f'{kind} n={n} k={k} i={i}: negative shard index')
        try:
            sh = ds.shard(k, k)
        except Exception:
            pass
        else:
            raise Violation('shard-index-accepted', f'{kind} n={n} k={k} i={k}: returned {list(sh)!r}')
    return sizes


def check_big(n, k):
    import lazy_dataset
    ds = lazy_dataset.new(list(range(n)))
    shards = ds.split(k)
    sizes = [len(s) for s in shards]
    flat = [x for s in shards for x in s]
    if len(shards) != k or flat != list(range(n)):
        lost = sorted(set(range(n)) - set(flat))
        raise Violation('not-a-partition', f'list n={n} k={k}: {len(flat)} of {n} examples in the shards; missing '
                                           f'{lost[:5]}...; sizes {sizes[:5]}...')
    if max(sizes) - min(sizes) > 1 or sum(sizes) != n:
        raise Violation('unbalanced', f'list n={n} k={k}: sizes {sizes[:8]}...')
    for i in (0, k // 2, k - 1):
        if list(ds.shard(k, i)) != list(shards[i]):
            raise Violation('shard-vs-split', f'list n={n} k={k} i={i}')


OPTIMISED_SCRIPT = r'''
import json, sys
import lazy_dataset
assert True or sys.exit("asserts are on")
out = []
for n in range(0, 7):
    ds = lazy_dataset.new({f"k{i}": ("s", i) for i in range(n)})
    for k in range(-1, n + 3):
        valid = 1 <= k <= n
        for how in ("split", "shard"):
            try:
                got = [list(x) for x in ds.split(k)] if how == "split" else [list(ds.shard(k, 0))]
                status = "ok"
            except Exception as e:
                got, status = None, "raised " + type(e).__name__
            if valid and status != "ok":
                out.append([n, k, how, "valid count refused: " + status])
            if not valid and status == "ok":
                out.append([n, k, how, "invalid count accepted: " + repr(got)])
            if valid and status == "ok" and how == "split":
                flat = [e for x in got for e in x]
                sizes = [len(x) for x in got]
                if flat != [("s", i) for i in range(n)] or len(got) != k or max(sizes) - min(sizes) > 1:
                    out.append([n, k, how, "not a balanced partition: " + repr(got)])
print(json.dumps({"optimised": not __debug__, "problems": out}))
'''


def check_optimised():
    """The same statement in an interpreter started with -O (assert statements are compiled away there): validation
    that lives in assert statements silently disappears."""
    import json
    import os
    import subprocess
    import sys
    from ..common import REPO
    env = dict(os.environ, PYTHONPATH=str(REPO))
    r = subprocess.run([sys.executable, '-O', '-c', OPTIMISED_SCRIPT], env=env, capture_output=True, text=True,
                       timeout=600)
    lines = [l for l in r.stdout.splitlines() if l.startswith('{')]
    if r.returncode != 0 or not lines:
        raise RuntimeError(f'harness: python -O child failed: {r.stderr[-500:]}')
    res = json.loads(lines[-1])
    if not res['optimised']:
        raise RuntimeError('harness: the child did not run with -O')
    if res['problems']:
        n, k, how, what = res['problems'][0]
        raise Violation('optimised-mode|' + what.split(':')[0].replace(' ', '-'),
                        f'python -O: dict-backed n={n} {how}({k}): {what} ({len(res["problems"])} problems in all)')


LAUNCHER_ENV = {'RANK': '1', 'WORLD_SIZE': '3', 'LOCAL_RANK': '1', 'SLURM_PROCID': '1', 'SLURM_NTASKS': '3',
                'SLURM_LOCALID': '1', 'OMPI_COMM_WORLD_RANK': '1', 'OMPI_COMM_WORLD_SIZE': '3',
                'PMI_RANK': '1', 'PMI_SIZE': '3'}


def check_frozen(n, k, seed_):
    """The dataset being split is the frozen copy of a reshuffling dataset whose original goes on being iterated while
    the (lazy) shards are read one after the other: the shards still partition what the frozen copy was."""
    import lazy_dataset
    live = lazy_dataset.new({f'k{i:03d}': ('s', i) for i in range(n)}).shuffle(True, rng=np.random.RandomState(seed_))
    list(live)
    frozen = live.copy(freeze=True)
    shards = frozen.split(k)
    whole = None
    parts = []
    for j, sh in enumerate(shards):
        parts.append((list(sh), list(sh.keys())))
        list(live)  # one more epoch of the original between two shards
        if j == 0:
            whole = (list(frozen), list(frozen.keys()))
    vals = [v for p, _ in parts for v in p]
    keys = [k_ for _, ks in parts for k_ in ks]
    if (vals, keys) != whole or sorted(v[1] for v in vals) != list(range(n)):
        raise Violation('frozen-split-not-a-partition',
                        f'n={n} k={k} seed={seed_}: the frozen copy of a reshuffling dataset is {whole}; its shards, '
                        f'read one after the other while the original is iterated in between, give {vals} / {keys}')
    return [len(p) for p, _ in parts]


def run_case(case):
    if case.get('frozen'):
        return check_frozen(case['n'], case['k'], case['seed'])
    if case.get('env'):
        import os
        saved = {k_: os.environ.get(k_) for k_ in LAUNCHER_ENV}
        os.environ.update(LAUNCHER_ENV)
        try:
            return run_case({k_: v for k_, v in case.items() if k_ != 'env'})
        finally:
            for k_, v in saved.items():
                if v is None:
                    os.environ.pop(k_, None)
                else:
                    os.environ[k_] = v
    if case.get('optimised'):
        return check_optimised()
    if case.get('big'):
        return check_big(case['n'], case['k'])
    try:
        return check_one(case['kind'], case['n'], case['k'], case.get('full', True))
    except Violation:
        raise
    except Exception as e:
        raise Violation('shard-access-raised', f'{case}: {type(e).__name__}: {e}')


def replay(case):
    if 'ast' in case:
        progcheck.setup_process()
        check_pipeline(case)
    else:
        run_case(case)


N_RANDOM = {'quick': 150, 'thorough': 1500}


def check_pipeline(case):
    """Split an arbitrary generated indexable pipeline: every k in [-1, n+2], oracle = the reference value list."""
    node = case['ast']
    m = ev(node)
    ds, _ = progcheck.build_checked(node)
    desc = f'program: {progs.show(node)}'
    n = m.n
    # every k for short pipelines; a spread of counts beyond (the work is cubic in n otherwise)
    ks = range(-1, n + 3) if n <= 40 else sorted({-1, 0, 1, 2, 3, 7, n // 3, n // 2, n - 1, n, n + 1, n + 2})
    for k in ks:
        valid = 1 <= k <= n
        try:
            shards = ds.split(k)
        except Exception as e:
            if valid:
                raise Violation('split-raises|pipeline', f'{desc} k={k}: {observe.describe_exc(e)}')
            continue
        if not valid:
            raise Violation('invalid-count-accepted|pipeline', f'{desc} k={k} with n={n}')
        lists = [list(s) for s in shards]
        flat = [e for x in lists for e in x]
        if len(shards) != k or not observe.same_list(flat, m.vals):
            raise Violation('not-a-partition|pipeline', f'{desc} k={k}: shards {lists}\nexpected a partition of {m.vals}')
        sizes = [len(x) for x in lists]
        if max(sizes) - min(sizes) > 1:
            raise Violation('unbalanced|pipeline', f'{desc} k={k}: sizes {sizes}')
        if m.cap_keys == 'req' and not m.taint:
            kflat = [kk for s in shards for kk in s.keys()]
            if kflat != list(m.keys):
                raise Violation('keys-partition|pipeline', f'{desc} k={k}: keys {kflat}')
        for i in (range(k) if k <= 40 else sorted({0, 1, k // 2, k - 2, k - 1})):
            if not observe.same_list(list(ds.shard(k, i)), lists[i]):
                raise Violation('shard-vs-split|pipeline', f'{desc} k={k} i={i}')
    return n


@st.composite
def st_pipeline(draw):
    node = draw(gen.st_program(gen.Ctx(), gen.PROFILES['indexable'] - {'cache_eager'}, max_stages=4))
    m = ev(node)
    if not (m.indexable and m.sized) or m.has_raise or m.iter_taint or m.int_taint:
        node = next(n for n in progs.walk(node) if n['op'] in progs.LEAVES)
    return {'ast': node}


def run_shard(tier, idx, nshards, rec, known):
    out = Outcome()
    nmax = N[tier]
    for n in range(nmax + 1):
        if n % nshards != idx:
            continue
        for kind in ('list', 'dict', 'derived', 'permuted'):
            if kind in ('derived', 'permuted') and n > 60:
                continue
            for k in range(-1, n + 3):
                case = {'kind': kind, 'n': n, 'k': k, 'full': True}
                try:
                    sizes = run_case(case)
                except Violation as v:
                    if known.match(v.sig):
                        rec.known_hits[v.sig] += 1
                        continue
                    out.violation = (case, v.sig, v.detail)
                    return [out]
                nt = k >= 2 and k <= n and n % k != 0
                cls = ['valid' if 1 <= k <= n else 'invalid-k', kind]
                if n == 0:
                    cls.append('n=0')
                if k == n and n > 0:
                    cls.append('k=n')
                shown = dict(case)
                if sizes is not None:
                    shown['sizes'] = sizes if len(sizes) <= 12 else sizes[:6] + ['...'] + sizes[-3:]
                rec.case(shown, nt, cls, size=n)
                if sizes is not None:
                    rec.extra['shards_checked'] = rec.extra.get('shards_checked', 0) + k
    # large n * k products (shortcuts for "many sections of a long dataset"): the partition predicate only
    if idx == 2 % nshards:
        for n, k in ((20000, 1000), (70000, 300), (5000, 4999), (4097, 4096)) + (
                ((200000, 100), (33000, 33000)) if tier == 'thorough' else ()):
            case = {'kind': 'list', 'n': n, 'k': k, 'full': False, 'big': True}
            try:
                check_big(n, k)
            except Violation as v:
                if not known.match(v.sig):
                    out.violation = (case, v.sig, v.detail)
                    return [out]
            rec.case(case, True, ['valid', 'big-product'], size=n)
    if idx == 1 % nshards:
        # the process was started by a job launcher (rank / world-size variables of torchrun, Slurm, Open MPI, PMI are
        # set): explicit arguments mean what they say
        extra = [{'kind': kind, 'n': n, 'k': k, 'full': True, 'env': True}
                 for n in range(0, 9) for kind in ('list', 'dict') for k in range(-1, n + 3)]
        # the frozen copy of a reshuffling dataset is split; the original is iterated on between the shards
        extra += [{'frozen': True, 'n': n, 'k': k, 'seed': sd} for n in (2, 3, 5, 8) for k in range(1, n + 1)
                  for sd in (0, 1)]
        for case in extra:
            try:
                sizes = run_case(case)
            except Violation as v:
                if known.match(v.sig):
                    rec.known_hits[v.sig] += 1
                    continue
                out.violation = (case, v.sig, v.detail)
                return [out]
            k, n = case['k'], case['n']
            rec.case(dict(case, sizes=sizes), k >= 2 and k <= n and n % k != 0,
                     ['launcher-env' if case.get('env') else 'frozen-reshuffle-split'], size=n)
    if idx == 3 % nshards:
        case = {'optimised': True}
        try:
            check_optimised()
        except Violation as v:
            if not known.match(v.sig):
                out.violation = (case, v.sig, v.detail)
                return [out]
        rec.case(case, True, ['python -O'], size=6)
    progcheck.setup_process()

    def one(case):
        n = check_pipeline(case)
        rec.case({'program': progs.show(case['ast']), 'ast': case['ast'], 'n': n}, n >= 3 and
                 progs.size(case['ast']) >= 2, ['generated-pipeline'] + ['op:' + o for o in set(progs.ops(case['ast']))],
                 size=n)
    return [out, drive(one, st_pipeline(), N_RANDOM[tier], rec, known, seed() * 1000 + idx)]
