"""C19 - the database layer builds correct, isolated datasets from its source (descriptions x request histories)."""
import copy
import gc
import json
import os
import pickle
import shutil
import tempfile
from pathlib import Path

from hypothesis import strategies as st

from .. import progcheck
from ..common import Violation, drive, seed

PID = 'C19'
RULE = ('Hypothesis: database descriptions (1-3 merged parts, each 0-3 datasets x 0-3 examples from a small id pool, '
        '0-2 aliases over datasets of any part, alias section present or absent per part, extra top-level keys of '
        'dict / list / str / int type in the first part; duplicate dataset / alias names across parts and '
        'overlapping example ids inside an alias on purpose) x backend (DictDatabase, JsonDatabase over temp files) x '
        'call form (varargs, list) x request history (name, alias, list / tuple of names, repeats with and without a '
        'held reference, del + gc.collect(), pickle round trip, unknown names). Oracle (model): list(get_dataset(x)) '
        '== stored examples in stored order extended by example_id and the requested name; deep equality of the '
        'source dicts before and after every step (an added empty alias section is tolerated); identity of repeated '
        'requests while a reference is held; invalid descriptions / requests raise; the pickled database answers '
        'identically. Non-trivial: (>= 2 parts or >= 1 alias) and >= 2 requests, or a rejected description; '
        'distinct by case JSON.')
ASSUMPTIONS = [
    'an empty dataset / alias request is documented to raise RuntimeError and is expected, not flagged',
    'an alias and a dataset of the SAME part never share a name (the code documents no check for it)',
    'rejections may surface at construction (DictDatabase) or at the first data access (JsonDatabase)',
]
N = {'quick': 800, 'thorough': 2500}
# names may contain any character: 'train+dev' is a dataset of its own, not "train and dev"
DS_NAMES = ['train', 'dev', 'test', 'extra', 'train+dev']
AL_NAMES = ['all', 'mix', 'train', 'dev+test']  # 'train' collides with a dataset name on purpose (across parts only)
IDS = ['a', 'b', 'c', 'd', 'e']


def plan(tier):
    return {'shards': 4 if tier == 'quick' else 16}


def model_merge(parts):
    """(datasets, alias, invalid reason or None) by the documented rules."""
    datasets, alias = {}, {}
    for k, p in enumerate(parts):
        names_before = set(datasets) | set(alias)
        for n in p['datasets']:
            if k > 0 and n in names_before:
                return None, None, f'dataset name {n!r} of part {k} already used'
        if k > 0:
            for a in p.get('alias', {}):
                if a in names_before:
                    return None, None, f'alias name {a!r} of part {k} already used'
            extra = set(p) - {'datasets', 'alias'}
            if extra:
                return None, None, f'part {k} has extra keys {extra}'
        datasets.update(p['datasets'])
        alias.update(p.get('alias', {}))
    return datasets, alias, None


def expected(datasets, alias, name):
    """Expected list of examples for one name (or ('raise', why))."""
    if name in alias:
        out, seen = [], set()
        for member in alias[name]:
            if member not in datasets:
                return ('raise', f'alias member {member!r} unknown')
            for eid, ex in datasets[member].items():
                if eid in seen:
                    return ('raise', f'overlapping example id {eid!r} in alias {name!r}')
                seen.add(eid)
                out.append({**ex, 'example_id': eid, 'dataset': name})
        if not out:
            return ('raise', 'empty')
        return out
    if name in datasets:
        out = [{**ex, 'example_id': eid, 'dataset': name} for eid, ex in datasets[name].items()]
        if not out:
            return ('raise', 'empty')
        return out
    return ('raise', 'unknown name')


def same_source(before, after, k):
    """Deep equality of a source description; an added EMPTY alias section is tolerated."""
    a = copy.deepcopy(after)
    if 'alias' not in before and a.get('alias') == {}:
        del a['alias']
    return a == before and list(a.keys()) == [x for x in before.keys()]


def check(case):
    from lazy_dataset import database
    parts = case['parts']
    if case.get('share_objs'):
        # examples with the same id are ONE object wherever they occur (datasets carved out of one pool of examples)
        pool = {}
        parts = [dict(p, datasets={n: {e: pool.setdefault(e, ex) for e, ex in d.items()}
                                   for n, d in p['datasets'].items()}) for p in parts]
    backend, form = case['backend'], case['form']
    desc = f'{case}'
    datasets, alias, invalid = model_merge(parts)
    src = copy.deepcopy(parts)
    pristine = copy.deepcopy(parts)
    tmp = None
    saved_home = False
    events = set()
    try:
        def build():
            if backend == 'dict':
                if form == 'list':
                    outer = list(src)
                    db_ = database.DictDatabase(outer)
                    del outer[:]  # the caller re-uses its list; the database is built from what it was given
                    return db_
                return database.DictDatabase(*src)
            paths = []
            for i, p in enumerate(src):
                path = Path(tmp) / f'part{i}.json'
                path.write_text(json.dumps(p))
                if case.get('tilde'):
                    path = Path('~') / path.name  # spelled relative to the home directory (HOME points at tmp)
                paths.append(str(path) if i % 2 == 0 else path)
            if form == 'list':
                db_ = database.JsonDatabase(paths)
                # the caller re-uses / changes its list of paths before the (lazy) first load
                paths.reverse()
                paths.append(Path(tmp) / 'does-not-exist.json')
                del paths[:1]
                return db_
            return database.JsonDatabase(*paths)
        if backend == 'json':
            tmp = tempfile.mkdtemp(prefix='verif_c19_')
            if case.get('tilde'):
                saved_home = os.environ.get('HOME')
                os.environ['HOME'] = tmp
        try:
            db = build()
            if backend == 'json':
                _ = db.data  # merging happens lazily
        except Exception as e:
            if invalid:
                events.add('rejected-description')
                if backend == 'dict' and not all(same_source(b, a, k) for k, (b, a) in enumerate(zip(pristine, src))):
                    raise Violation('source-modified-by-rejected-merge', f'{desc}\nsources now {src}')
                if backend == 'json':
                    # the rejection must be stable: the same object must not answer from a half-merged state later
                    for attempt in ('data', 'dataset_names', 'get_dataset'):
                        try:
                            if attempt == 'data':
                                db.data
                            elif attempt == 'dataset_names':
                                db.dataset_names
                            else:
                                list(db.get_dataset(DS_NAMES[0]))
                        except Exception:
                            continue
                        raise Violation('rejected-description-answers-later',
                                        f'{desc}\nafter the description was rejected, {attempt} on the same object '
                                        f'succeeded (model: {invalid})')
                return events
            raise Violation('valid-description-rejected', f'{desc}\n{type(e).__name__}: {str(e)[:300]}')
        if invalid:
            raise Violation('invalid-description-accepted', f'{desc}\nmodel: {invalid}')
        held = {}
        answers = {}

        def check_sources(where):
            if backend == 'dict':
                for k, (b, a) in enumerate(zip(pristine, src)):
                    if not same_source(b, a, k):
                        raise Violation('source-modified', f'{desc}\n{where}: part {k} is now {a}\nwas {b}')

        check_sources('after construction')
        other = None
        if case.get('second_db') and backend == 'dict':
            parts2 = copy.deepcopy(pristine)
            for p2 in parts2:
                for dsn, exs in p2['datasets'].items():
                    for eid, ex in exs.items():
                        ex['v'] = 'second-' + str(ex.get('v'))
            other = (database.DictDatabase(copy.deepcopy(parts2)), model_merge(parts2))
            events.add('second-database')
        for si, req in enumerate(case['requests']):
            kind = req[0]
            if kind == 'gc':
                held.clear()
                gc.collect()
                continue
            if kind == 'edit_source':
                if backend == 'dict' and held:
                    snap = {nm: copy.deepcopy(list(d_)) for nm, d_ in held.items()}
                    edited = []
                    for part in src:
                        for dsd in part['datasets'].values():
                            for ex_ in dsd.values():
                                if isinstance(ex_.get('tags'), list):
                                    ex_['tags'].append('edited-later')
                                    edited.append(ex_['tags'])
                    try:
                        for nm, d_ in held.items():
                            now = list(d_)
                            if now != snap[nm]:
                                raise Violation('dataset-follows-source-edit',
                                                f'{desc}\nstep {si}: a nested value of the source was edited after the '
                                                f'dataset {nm!r} had been built; the dataset now yields {now}\n'
                                                f'before the edit it yielded {snap[nm]}')
                    finally:
                        for t in edited:
                            t.pop()
                    events.add('source-edited')
                continue
            if kind == 'pickle':
                if backend == 'json':
                    blob = pickle.dumps(db)
                    if len(req) > 1 and req[1] == 'files_change':
                        # between dumps and loads the JSON files change (another job regenerates them): the pickled
                        # database still answers what it answered when it was pickled
                        for f in sorted(Path(tmp).glob('part*.json')):
                            f.write_text(json.dumps({'datasets': {'ghost': {'g0': {'v': 'ghost'}}}}))
                        events.add('pickled-files-changed')
                    elif len(req) > 1 and req[1] == 'files_gone':
                        for f in sorted(Path(tmp).glob('part*.json')):
                            f.unlink()
                        events.add('pickled-files-gone')
                    try:
                        db = pickle.loads(blob)
                    except Exception as e:
                        raise Violation('pickled-database-broken', f'{desc}\nstep {si}: the pickle of a loaded '
                                        f'database could not be loaded ({req[1:]}): {type(e).__name__}: {str(e)[:200]}')
                    held.clear()  # a new database object has its own memo
                    events.add('pickled')
                continue
            _, name, hold = req
            names = name if isinstance(name, list) else [name]
            if isinstance(name, list):
                want, bad = [], None
                for nm in names:
                    e = expected(datasets, alias, nm)
                    if isinstance(e, tuple):
                        bad = e
                        break
                    want += e
                if not names:
                    bad = ('raise', 'empty list of names')
                want = bad if bad else want
            else:
                want = expected(datasets, alias, name)
            arg = name
            if isinstance(name, list):
                # a sequence of names in whatever iterable the caller has: list, tuple, or a one-shot iterator
                arg = {'tuple': tuple(name), 'gen': (nm_ for nm_ in name), 'iter': iter(list(name)),
                       'map': map(str, name)}.get(req[2], list(name))
            try:
                ds = db.get_dataset(arg)
                got = list(ds)
            except Exception as e:
                if isinstance(want, tuple):
                    events.add('rejected-request:' + want[1].split()[0])
                    check_sources(f'after rejected request {req}')
                    continue
                raise Violation('request-raised', f'{desc}\nrequest {req}: {type(e).__name__}: {str(e)[:300]}')
            if isinstance(want, tuple):
                raise Violation('invalid-request-answered', f'{desc}\nrequest {req} returned {got}; model: {want[1]}')
            if got != want:
                raise Violation('wrong-examples', f'{desc}\nrequest {req} returned {got}\nexpected {want}')
            if [list(g.keys())[-2:] for g in got] != [['example_id', 'dataset']] * len(got):
                pass  # field order is not part of the statement
            key = json.dumps(name)
            if key in answers and answers[key] != got:
                raise Violation('answers-differ', f'{desc}\nrequest {req}: {got} vs earlier {answers[key]}')
            answers[key] = copy.deepcopy(got)
            if isinstance(name, str):
                if name in held and held[name] is not ds:
                    raise Violation('not-shared', f'{desc}\nrequest {req}: a second dataset object was built while '
                                                  f'the first one is alive')
                if name in held:
                    events.add('served-from-memo')
                if hold:
                    held[name] = ds
                again = db.get_dataset(name)
                if again is not ds:
                    raise Violation('not-shared', f'{desc}\nget_dataset({name!r}) twice in a row: different objects')
            if other is not None and isinstance(name, str):
                # a second database object with equally named datasets but other contents answers for itself,
                # also while `ds` (a dataset of the first database) is alive
                db2, (d2, a2, _) = other
                want2 = expected(d2, a2, name)
                try:
                    got2 = list(db2.get_dataset(name))
                except Exception as e:
                    got2 = ('raise', str(e))
                if not isinstance(want2, tuple) and got2 != want2:
                    raise Violation('databases-share-datasets', f'{desc}\nsecond database, request {name!r}: {got2}\n'
                                                                f'expected {want2}')
            # handed out examples are copies: mutating them must not reach the source
            for g in got:
                g['example_id'] = 'mutated'
                g['new'] = 1
            check_sources(f'after request {req}')
            del ds
        if backend == 'json' and case.get('rewrite'):
            # the files are rewritten (other payloads); a NEW database on the same paths must see the new content
            parts2 = copy.deepcopy(pristine)
            for p2 in parts2:
                for dsn, exs in p2['datasets'].items():
                    for eid, ex in exs.items():
                        ex['v'] = 'rewritten-' + str(ex.get('v'))
            paths = []
            for i, p2 in enumerate(parts2):
                path = Path(tmp) / f'part{i}.json'
                path.write_text(json.dumps(p2))
                paths.append(str(path) if i % 2 == 0 else path)
            db3 = database.JsonDatabase(paths) if form == 'list' else database.JsonDatabase(*paths)
            d3, a3, _ = model_merge(parts2)
            for name in list(d3) + list(a3):
                want3 = expected(d3, a3, name)
                if isinstance(want3, tuple):
                    continue
                try:
                    got3 = list(db3.get_dataset(name))
                except Exception as e:
                    raise Violation('request-raised', f'{desc}\nrequest {name!r} on a freshly built JsonDatabase: '
                                                      f'{type(e).__name__}: {str(e)[:300]}')
                if got3 != want3:
                    raise Violation('stale-file-content', f'{desc}\nafter the JSON files were rewritten a new '
                                                          f'JsonDatabase answers {name!r} with {got3}\nexpected {want3}')
            events.add('files-rewritten')
        return events
    finally:
        if saved_home is not False:
            if saved_home is None:
                os.environ.pop('HOME', None)
            else:
                os.environ['HOME'] = saved_home
        if tmp:
            shutil.rmtree(tmp, ignore_errors=True)


def replay(case):
    progcheck.setup_process()
    check(case)


@st.composite
def st_case(draw):
    nparts = draw(st.integers(1, 3))
    parts = []
    used = []
    want_invalid = draw(st.integers(0, 5)) == 0
    for k in range(nparts):
        p = {}
        pool = [n for n in DS_NAMES if n not in used] or DS_NAMES
        names = draw(st.lists(st.sampled_from(pool if not want_invalid else DS_NAMES), min_size=0, max_size=3,
                              unique=True))
        dsets = {}
        for n in names:
            ids = draw(st.lists(st.sampled_from(IDS), min_size=0, max_size=3, unique=True))
            dsets[n] = {e: {'v': f'{n}-{e}', 'tags': [k, e], **({'dataset': 'stale'} if draw(st.integers(0, 6)) == 0 else {})}
                        for e in ids}
        p['datasets'] = dsets
        used += names
        if draw(st.booleans()):
            al = {}
            apool = [a for a in AL_NAMES if a not in names and (want_invalid or a not in used)]
            for a in draw(st.lists(st.sampled_from(apool), min_size=0, max_size=2, unique=True)) if apool else []:
                members = draw(st.lists(st.sampled_from(DS_NAMES), min_size=1, max_size=3, unique=True))
                al[a] = members
                used.append(a)
            p['alias'] = al
        if k == 0 and draw(st.integers(0, 3)) == 0:
            p[draw(st.sampled_from(['meta', 'info']))] = draw(st.sampled_from([{'x': 1}, [1, 2], 'v1', 7]))
        if k > 0 and want_invalid and draw(st.integers(0, 5)) == 0:
            p['meta'] = {'x': 1}
        parts.append(p)
    reqs = []
    names_all = DS_NAMES + AL_NAMES + ['nope']
    for _ in range(draw(st.integers(1, 7))):
        r = draw(st.integers(0, 9))
        if r == 0:
            reqs.append(['gc'] if draw(st.booleans()) else ['edit_source'])
        elif r == 1:
            reqs.append(['pickle'] + draw(st.sampled_from([[], ['files_change'], ['files_gone']])))
        elif r <= 3:
            reqs.append(['get', draw(st.lists(st.sampled_from(names_all[:-1]), min_size=1, max_size=3)),
                         draw(st.sampled_from(['list', 'tuple', 'gen', 'iter', 'map']))])
        else:
            reqs.append(['get', draw(st.sampled_from(names_all)), draw(st.booleans())])
    aliases_all = [(a, ms) for p_ in parts for a, ms in p_.get('alias', {}).items()]
    if aliases_all and draw(st.integers(0, 2)) == 0:
        # every member of one alias is requested and held first, then the alias (valid or not), then once more
        a, ms = draw(st.sampled_from(aliases_all))
        tail = [['get', m, True] for m in ms] + [['get', a, draw(st.booleans())], ['get', a, False]]
        reqs = (reqs + tail) if draw(st.booleans()) else (tail + reqs)
    if draw(st.integers(0, 3)) == 0:
        # a name that reads like a list of two other names, held alive, then that list is requested (and back)
        reqs += [['get', 'train+dev', True], ['get', ['train', 'dev'], 'list'], ['get', 'dev+test', True],
                 ['get', ['dev', 'test'], 'tuple'], ['get', 'train+dev', False]]
    return {'backend': draw(st.sampled_from(['dict', 'json'])), 'form': draw(st.sampled_from(['varargs', 'list'])),
            'parts': parts, 'requests': reqs, 'second_db': draw(st.integers(0, 3)) == 0,
            'rewrite': draw(st.integers(0, 2)) == 0, 'share_objs': draw(st.integers(0, 3)) == 0,
            'tilde': draw(st.integers(0, 3)) == 0}


def run_shard(tier, idx, nshards, rec, known):
    progcheck.setup_process()

    def one(case):
        events = check(case)
        nal = sum(len(p.get('alias', {})) for p in case['parts'])
        nreq = sum(1 for r in case['requests'] if r[0] == 'get')
        nt = ((len(case['parts']) >= 2 or nal >= 1) and nreq >= 2) or 'rejected-description' in events
        cls = ['backend:' + case['backend'], 'form:' + case['form'], f'parts:{len(case["parts"])}',
               f'aliases:{min(nal, 3)}'] + sorted(events)
        rec.case(case, nt, cls, size=len(case['requests']))
    from ..common import Outcome
    o0 = Outcome()
    if idx == 0:
        # enumerated first: descriptions whose ONLY irregularity needs three members / three parts to exist
        def ex(n, ids):
            return {e: {'v': f'{n}-{e}', 'tags': [0, e]} for e in ids}
        fixed = []
        # (a) an alias of three datasets, the FIRST and the LAST share an example id (every order of the members)
        for members in (['train', 'dev', 'test'], ['test', 'train', 'dev'], ['dev', 'test', 'train'],
                        ['train', 'dev', 'test', 'extra']):
            d = {'train': ex('train', ['a', 'b']), 'dev': ex('dev', ['c']), 'test': ex('test', ['d', 'a']),
                 'extra': ex('extra', ['e'])}
            fixed.append({'parts': [{'datasets': d, 'alias': {'all': members}}],
                          'requests': [['get', 'all', False], ['get', 'train', True], ['get', 'all', False]]})
            # ... and the same alias requested while EVERY member dataset is alive in the caller's hands (whatever
            # the database re-uses from them, the overlap is still an overlap)
            fixed.append({'parts': [{'datasets': d, 'alias': {'all': members}}],
                          'requests': [['get', m, True] for m in members] + [['get', 'all', False],
                                                                              ['get', 'all', True]]})
        # (b) three parts: a name introduced by the SECOND part (alias or dataset) comes again in the THIRD
        for second, third in (('alias', 'alias'), ('alias', 'datasets'), ('datasets', 'alias'), ('datasets', 'datasets')):
            p1 = {'datasets': {'train': ex('train', ['a'])}}
            p2 = {'datasets': {'dev': ex('dev', ['b'])}}
            p3 = {'datasets': {'test': ex('test', ['c'])}}
            for part, kind_ in ((p2, second), (p3, third)):
                if kind_ == 'alias':
                    part['alias'] = {'mix': ['train']}
                else:
                    part['datasets']['mix'] = ex('mix', ['d'])
            fixed.append({'parts': [p1, p2, p3], 'requests': [['get', 'mix', False], ['get', 'train', False]]})
        for base in fixed:
            for backend in ('dict', 'json'):
                for form in ('varargs', 'list'):
                    case = dict(base, backend=backend, form=form, second_db=False, rewrite=False, share_objs=False)
                    try:
                        one(case)
                    except Violation as v:
                        if known.match(v.sig):
                            continue
                        o0.violation = (case, v.sig, v.detail)
                        return [o0]
    return [o0, drive(one, st_case(), N[tier], rec, known, seed() * 1000 + idx)]
