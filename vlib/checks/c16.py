"""C16 - combinators obey their algebraic laws (two implementation pipelines, no reference model in the oracle)."""
from hypothesis import strategies as st

from .. import gen, observe, progcheck, progs
from ..common import Violation, drive, seed
from ..refmodel import Invalid, ev

PID = 'C16'
RULE = ('Hypothesis: a sub-program S, a law instantiated at S with drawn parameters (batch(n).unbatch() = id; '
        'concatenate(split(k)) = id; S[s1][s2] = S[composed index list]; map(f) commutes with slice / seeded shuffle / '
        'sort / concatenate / batch+batch_map / cache; map(f).map(g) = map(g o f); filter commutes with '
        'order-preserving selection; tile(r) = r-fold concatenation) and a generated context of further stages '
        'applied to BOTH sides. Oracle: observational equality of the two real pipelines (iteration twice, len, every '
        'index, keys, items, key lookups) on the capabilities both sides offer. Non-trivial: non-identity law '
        'parameter (n>1, k>1, r>1, non-trivial slices) or a non-empty context; distinct by case JSON.')
ASSUMPTIONS = [
    'the reference model is used only to construct valid programs (preconditions), never to judge equality',
    'a capability is compared only when both sides offer it (e.g. batch().unbatch() is not indexable, id is)',
]
N = {'quick': 1200, 'thorough': 6000}
LAWS = ['tile_concat_random', 'tile_shuffle_concat', 'batch_unbatch', 'concat_split', 'nested_slice', 'map_slice', 'map_shuffle', 'map_sort', 'map_concat',
        'map_batch', 'map_cache', 'map_map', 'filter_select', 'tile_concat']
CTX_OPS = gen.PROFILES['deterministic'] - {'cache_eager'}


def plan(tier):
    return {'shards': 4 if tier == 'quick' else 16}


def record(ds):
    """Full observation of a real dataset, exceptions recorded by type name."""
    rec = {}
    for p in (1, 2):
        got, exc, _ = observe.take(lambda: ds, 200)
        rec[f'iter{p}'] = (got, type(exc).__name__ if exc is not None else None)
    try:
        rec['len'] = len(ds)
    except Exception:
        rec['len'] = None
    try:
        rec['indexable'] = bool(ds.indexable)
    except Exception:
        rec['indexable'] = None
    n = rec['len']
    rec['index'] = {}
    if rec['indexable'] and n is not None:
        for i in range(-n - 2, n + 2):
            try:
                rec['index'][i] = ('v', ds[i])
            except Exception as e:
                rec['index'][i] = ('e', 'IndexError' if isinstance(e, IndexError) else type(e).__name__)
    try:
        ks = ds.keys()
        rec['keys'] = list(ks)
    except Exception:
        rec['keys'] = None
    got, exc, _ = observe.take(lambda: ds.items(), 200)
    rec['items'] = (got, type(exc).__name__ if exc is not None else None)
    rec['lookup'] = {}
    if rec['keys'] is not None:
        for k in list(rec['keys']) + ['zz']:
            try:
                rec['lookup'][k] = ('v', ds[k])
            except Exception as e:
                rec['lookup'][k] = ('e', type(e).__name__)
    return rec


REFUSALS = {'AssertionError', 'ItemsNotDefined', 'NotImplementedError'}


def compare(a, b, what):
    for p in ('iter1', 'iter2'):
        (ga, ea), (gb, eb) = a[p], b[p]
        if {ea, eb} & REFUSALS:
            continue  # a documented refusal of key iteration depends on the structure, not on the law
        if not observe.same_list(ga, gb) or ea != eb:
            raise Violation(f'{what}|iteration', f'{p}: lhs {ga} ({ea})\n       rhs {gb} ({eb})')
    if a['len'] is not None and b['len'] is not None and a['len'] != b['len']:
        raise Violation(f'{what}|len', f'lhs {a["len"]} rhs {b["len"]}')
    if a['indexable'] and b['indexable'] and a['len'] is not None and b['len'] is not None:
        for i in a['index']:
            x, y = a['index'][i], b['index'].get(i)
            if y is None:
                continue
            if (x[0] == 'e' and x[1] in REFUSALS) or (y[0] == 'e' and y[1] in REFUSALS):
                continue
            if x[0] != y[0] or (x[0] == 'v' and not observe.same(x[1], y[1])) or (x[0] == 'e' and x[1] != y[1]):
                raise Violation(f'{what}|index', f'ds[{i}]: lhs {x} rhs {y}')
    if a['keys'] is not None and b['keys'] is not None:
        if a['keys'] != b['keys']:
            raise Violation(f'{what}|keys', f'lhs {a["keys"]} rhs {b["keys"]}')
        for k in a['lookup']:
            x, y = a['lookup'][k], b['lookup'].get(k)
            if y is None or (x[0] == 'e' and x[1] in REFUSALS) or (y[0] == 'e' and y[1] in REFUSALS):
                continue
            if x[0] != y[0] or (x[0] == 'v' and not observe.same(x[1], y[1])):
                raise Violation(f'{what}|lookup', f'ds[{k!r}]: lhs {x} rhs {y}')
    (ga, ea), (gb, eb) = a['items'], b['items']
    if ea is None and eb is None and not observe.same_list(ga, gb):
        raise Violation(f'{what}|items', f'lhs {ga}\nrhs {gb}')


def substitute(node, old, new):
    if node is old:
        return new
    if 'ins' in node:
        return dict(node, ins=[substitute(c, old, new) for c in node['ins']])
    if 'in' in node:
        return dict(node, **{'in': substitute(node['in'], old, new)})
    return node


@st.composite
def st_law(draw):
    ctx = gen.Ctx()
    law = draw(st.sampled_from(LAWS + ['concat_split_dupkeys']))
    if law == 'concat_split_dupkeys':
        # concatenate(S, T) == concatenate(*S.split(k), T) also where S holds one key twice (an over-sampling
        # selection): whether the concatenation's keys() refuses the repeated key cannot depend on where the
        # boundaries between the members fall
        S0 = draw(gen.st_source(ctx, kind='dict', min_n=2))
        n0 = len(S0['keys'])
        idx = draw(st.lists(st.integers(0, n0 - 1), min_size=2, max_size=n0 + 2))
        if draw(st.booleans()):
            idx = idx + [idx[0]]
        S = {'op': 'slice', 'form': {'k': 'ilist', 'idx': idx, 'as': 'list'}, 'in': S0}
        T = draw(gen.st_source(ctx, kind='dict'))
        k = draw(st.integers(1, len(idx)))
        parts = [{'op': 'shard', 'k': k, 'i': i, 'via': 'split', 'in': S} for i in range(k)]
        return {'law': law, 'strict_keys': True, 'trivial': k == 1 or len(set(idx)) == len(idx),
                'lhs': {'op': 'concat', 'how': 'function', 'ins': parts + [T]},
                'rhs': {'op': 'concat', 'how': 'function', 'ins': [S, T]}}
    if law == 'map_concat' and draw(st.integers(0, 2)) == 0:
        # the mapped function FAILS for some examples: a failure is part of what the function does and distributes
        # over concatenation like a value (same exception type for the same example, by iteration, index and key)
        S = draw(gen.st_source(ctx, kind='dict', min_n=1))
        T = draw(gen.st_source(ctx, kind='dict'))
        mm = draw(st.integers(2, 3))
        b = {'op': 'boom', 'm': mm, 'r': draw(st.integers(0, mm - 1)),
             'exc': draw(st.sampled_from(['KeyError', 'ValueError', 'VErrA', 'IndexError'])), 'fn': draw(st.integers(0, 3))}
        return {'law': 'map_concat_failing', 'strict_errors': True, 'trivial': False,
                'lhs': dict(b, **{'in': {'op': 'concat', 'how': 'method', 'ins': [S, T]}}),
                'rhs': {'op': 'concat', 'how': 'method', 'ins': [dict(b, **{'in': S}), dict(b, **{'in': T})]}}
    if law == 'map_slice' and draw(st.integers(0, 2)) == 0:
        # a FAILING map distributes over slicing too: an example in front of (or behind) the selection that the
        # function cannot handle is none of the selection's business, by iteration as well as by index
        S = draw(gen.st_source(ctx, min_n=2))
        n0 = ev(S).n
        a = draw(st.integers(1, n0 - 1))
        form = {'k': 'slice', 'a': a, 'b': draw(st.sampled_from([None, n0, n0 - 1])), 'c': draw(st.sampled_from([None, 1]))}
        mm = draw(st.integers(2, 3))
        b = {'op': 'boom', 'm': mm, 'r': draw(st.integers(0, mm - 1)),
             'exc': draw(st.sampled_from(['VErrA', 'KeyError', 'ValueError'])), 'fn': draw(st.integers(0, 3))}
        return {'law': 'map_slice_failing', 'trivial': False,
                'lhs': {'op': 'slice', 'form': form, 'in': dict(b, **{'in': S})},
                'rhs': dict(b, **{'in': {'op': 'slice', 'form': form, 'in': S}})}
    plain = law == 'filter_select'
    if plain:
        S = draw(gen.st_source(ctx))
        S = dict(S, dup=False) if S['op'] == 'list' else S
        if draw(st.booleans()):
            S = {'op': 'map', 'fn': draw(st.integers(0, 3)), 'in': S}
    else:
        S = draw(gen.st_program(ctx, gen.PROFILES['indexable'] - {'cache_eager'}, max_stages=3))
    m = ev(S)
    if not (m.indexable and m.sized) or m.has_raise or m.iter_taint or m.int_taint or m.taint:
        S = draw(gen.st_source(ctx))
        m = ev(S)
    n = m.n
    f = draw(st.integers(0, 3))
    trivial = False
    if law == 'tile_concat_random':
        # tile(r) of a pipeline with a seeded per-epoch reshuffle equals the r-fold concatenation of that object,
        # epoch by epoch (both sides share one permutation state per epoch sequence)
        r = draw(st.integers(1, 3))
        R = {'op': 'reshuffle', 'seed': draw(st.integers(0, 99)), 'in': S}
        if draw(st.booleans()):
            R = {'op': 'map', 'fn': f, 'in': R}
        return {'law': law, 'lhs': {'op': 'tile', 'r': r, 'in': R}, 'rhs': {'op': 'concat_same', 'r': r, 'in': R},
                'epochs': 3, 'trivial': r == 1 or n <= 1}
    if law == 'tile_shuffle_concat':
        # tile(r, shuffle=True) = concatenation of r independently (globally seeded) shuffled copies
        r = draw(st.integers(1, 3))
        return {'law': law, 'lhs': {'op': 'tile', 'r': r, 'shuffle': True, 'in': S},
                'rhs': {'op': 'concat_shuffled', 'r': r, 'in': S}, 'np_seed': draw(st.integers(0, 1000)),
                'trivial': r == 1 or n <= 1}
    if law == 'batch_unbatch':
        b = draw(st.integers(1, 4))
        lhs, rhs = {'op': 'unbatch', 'in': {'op': 'batch', 'n': b, 'drop_last': False, 'in': S}}, S
        trivial = b == 1
    elif law == 'concat_split':
        if n == 0:
            lhs, rhs, trivial = S, S, True
        else:
            k = draw(st.integers(1, n))
            via = draw(st.sampled_from(['split', 'split', 'shard', 'shard_neg']))
            parts = [{'op': 'shard', 'k': k, 'i': i, 'via': via, 'in': S} for i in range(k)]
            lhs = parts[0] if k == 1 else {'op': 'concat', 'how': 'function', 'ins': parts}
            rhs = S
            trivial = k == 1
    elif law == 'nested_slice':
        bound = st.one_of(st.none(), st.integers(-n - 1, n + 1))
        step = st.sampled_from([None, 1, -1, 2, -2, 3])
        s1 = {'k': 'slice', 'a': draw(bound), 'b': draw(bound), 'c': draw(step)}
        n1 = len(list(range(n))[slice(s1['a'], s1['b'], s1['c'])])
        bound2 = st.one_of(st.none(), st.integers(-n1 - 1, n1 + 1))
        s2 = {'k': 'slice', 'a': draw(bound2), 'b': draw(bound2), 'c': draw(step)}
        idx = list(range(n))[slice(s1['a'], s1['b'], s1['c'])][slice(s2['a'], s2['b'], s2['c'])]
        lhs = {'op': 'slice', 'form': s2, 'in': {'op': 'slice', 'form': s1, 'in': S}}
        rhs = {'op': 'slice', 'form': {'k': 'ilist', 'idx': idx, 'as': 'list'}, 'in': S}
        trivial = s1 == s2 == {'k': 'slice', 'a': None, 'b': None, 'c': None}
        if draw(st.booleans()):
            return {'law': 'nested_slice_after_use', 'lhs': lhs, 'rhs': rhs, 'trivial': trivial,
                    'warm': {'S': S, 's1': s1, 's2': s2, 'idx': idx}}
    elif law == 'map_slice':
        form = draw(gen.st_slice_form(n, m))
        lhs = {'op': 'slice', 'form': form, 'in': {'op': 'map', 'fn': f, 'in': S}}
        rhs = {'op': 'map', 'fn': f, 'in': {'op': 'slice', 'form': form, 'in': S}}
    elif law == 'map_shuffle':
        sd = draw(st.integers(0, 50))
        lhs = {'op': 'shuffle_once', 'seed': sd, 'in': {'op': 'map', 'fn': f, 'in': S}}
        rhs = {'op': 'map', 'fn': f, 'in': {'op': 'shuffle_once', 'seed': sd, 'in': S}}
    elif law == 'map_sort':
        key, rev = draw(st.integers(1, 3)), draw(st.booleans())
        lhs = {'op': 'sort', 'key': key, 'reverse': rev, 'sort_fn': None, 'in': {'op': 'map', 'fn': f, 'in': S}}
        rhs = {'op': 'map', 'fn': f, 'in': {'op': 'sort', 'key': key, 'reverse': rev, 'sort_fn': None, 'wrap': f,
                                            'in': S}}
    elif law == 'map_concat':
        T = draw(gen.st_source(ctx))
        lhs = {'op': 'map', 'fn': f, 'in': {'op': 'concat', 'how': 'method', 'ins': [S, T]}}
        rhs = {'op': 'concat', 'how': 'method', 'ins': [{'op': 'map', 'fn': f, 'in': S},
                                                        {'op': 'map', 'fn': f, 'in': T}]}
    elif law == 'map_batch':
        b, dl = draw(st.integers(1, 4)), draw(st.booleans())
        lhs = {'op': 'batch', 'n': b, 'drop_last': dl, 'in': {'op': 'map', 'fn': f, 'in': S}}
        rhs = {'op': 'batch_map', 'fn': f, 'in': {'op': 'batch', 'n': b, 'drop_last': dl, 'in': S}}
    elif law == 'map_cache':
        lhs = {'op': 'cache', 'lazy': True, 'in': {'op': 'map', 'fn': f, 'in': S}}
        rhs = {'op': 'map', 'fn': f, 'in': {'op': 'cache', 'lazy': True, 'in': S}}
    elif law == 'map_map':
        g = draw(st.integers(0, 3))
        lhs = {'op': 'map', 'fn': g, 'in': {'op': 'map', 'fn': f, 'in': S}}
        rhs = {'op': 'mapc', 'fns': [f, g], 'in': S}
    elif law == 'filter_select':
        mask = draw(st.lists(st.booleans(), min_size=n, max_size=n))
        how = draw(st.sampled_from(['mask', 'slice', 'ilist']))
        if how == 'mask':
            form = {'k': 'mask', 'bits': mask, 'as': draw(st.sampled_from(['np', 'list', 'tuple']))}
        elif how == 'ilist':
            form = {'k': 'ilist', 'idx': [i for i, b in enumerate(mask) if b], 'as': 'list'}
        else:
            form = {'k': 'slice', 'a': draw(st.integers(0, n)), 'b': draw(st.one_of(st.none(), st.integers(0, n))),
                    'c': draw(st.sampled_from([None, 1, 2, 3]))}
        sel = {'op': 'slice', 'form': form, 'in': S}
        pm = draw(st.integers(2, 3))
        pr = draw(st.integers(0, pm - 1))
        allowed = [repr(v) for v in ev(sel).vals]
        lhs = {'op': 'filter', 'm': pm, 'r': pr, 'lazy': True, 'in': sel}
        rhs = {'op': 'filter_in', 'reprs': allowed, 'in': {'op': 'filter', 'm': pm, 'r': pr, 'lazy': True, 'in': S}}
    else:  # tile_concat
        r = draw(st.integers(1, 3))
        lhs = {'op': 'tile', 'r': r, 'in': S}
        rhs = S if r == 1 else {'op': 'concat', 'how': 'function', 'ins': [S] * r}
        trivial = r == 1
    # context above the hole, generated over the left side and replayed on the right side
    ctx_stages = draw(st.integers(0, 3))
    P_l = draw(gen.st_program(ctx, CTX_OPS - {'concat', 'intersperse', 'zip', 'key_zip'}, max_stages=ctx_stages,
                              source=lhs)) if ctx_stages else lhs
    P_r = substitute(P_l, lhs, rhs)
    try:
        ev(P_r)
        ev(P_l)
    except Invalid:
        P_l, P_r = lhs, rhs
    return {'law': law, 'lhs': P_l, 'rhs': P_r, 'trivial': trivial and P_l is lhs}


def check_warm(case):
    """S[s1] is built and used (keys(), items(), a key lookup) BEFORE [s2] is applied to that same object."""
    from .. import build as B
    S = case['warm']['S']
    s1, s2, idx = case['warm']['s1'], case['warm']['s2'], case['warm']['idx']
    base, _ = progcheck.build_checked(S)
    mid = base[B.make_form(s1)]
    for use in (lambda: mid.keys(), lambda: list(mid.items()), lambda: mid[mid.keys()[0]], lambda: len(mid)):
        try:
            use()
        except Exception:
            pass
    lhs = mid[B.make_form(s2)]
    rhs = base[list(idx)]
    try:
        compare(record(lhs), record(rhs), 'nested_slice_after_use')
    except Violation as v:
        raise Violation(v.sig, f'S = {progs.show(S)}; mid = S[{s1}] was used (keys, items, lookup), then mid[{s2}] '
                               f'vs S[{idx}]\n' + v.detail)


def check_direct(case):
    """Laws instantiated directly on the library (no program AST): a failing function distributes over batching, and
    a cache that was filled in a scattered order is still the dataset it caches."""
    import lazy_dataset
    n = case['n']
    if case['direct'] == 'cache_scattered':
        def mk():
            d = lazy_dataset.new({f'k{i}': ('s', i) for i in range(n)}) if case['keyed'] else \
                lazy_dataset.new([('s', i) for i in range(n)])
            return d.map(lambda x: ('m', x))
        c = mk().cache()
        if case['fill'] == 'index':
            for i in case['order']:
                c[i % n if n else 0] if n else None
        elif case['fill'] == 'shuffle':
            import numpy as np
            list(c.shuffle(False, rng=np.random.RandomState(case['seed'])))
        else:
            list(c[::-1])
        lhs = c.copy() if case.get('copy') else c
        compare(record(lhs), record(mk()), 'cache_scattered')
        return
    # map_batch_failing
    E = progs.exc_class(case['exc'])
    fail = set(case['fail'])

    def f(x):
        if x[1] in fail:
            raise E('cannot handle', x[1])
        return ('m', x)
    b = case['batch']

    def mk():
        return lazy_dataset.new([('s', i) for i in range(n)])
    lhs, rhs = mk().map(f).batch(b), mk().batch(b).batch_map(f)
    variants = {'plain': (lhs, rhs)}
    if case['exc'] == 'FilterException':
        variants['catch'] = (lhs.catch(), rhs.catch())
    else:
        variants['catch'] = (lhs.catch(E), rhs.catch(E))
    variants['catch_unbatch'] = (variants['catch'][0].unbatch(), variants['catch'][1].unbatch())
    for nm, (l_, r_) in variants.items():
        compare(record(l_), record(r_), f'map_batch_failing-{nm}')


def check(case):
    if 'warm' in case:
        return check_warm(case)
    if 'direct' in case:
        try:
            return check_direct(case)
        except Violation as v:
            raise Violation(v.sig, f'{case}\n' + v.detail)
    import numpy as np
    if 'np_seed' in case:
        np.random.seed(case['np_seed'])
    dl, _ = progcheck.build_checked(case['lhs'])
    if 'np_seed' in case:
        np.random.seed(case['np_seed'])
    dr, _ = progcheck.build_checked(case['rhs'])
    if case.get('epochs'):
        for e in range(case['epochs']):
            a, b = list(dl), list(dr)
            if not observe.same_list(a, b):
                raise Violation(f'{case["law"]}|epoch', f'law {case["law"]}\nlhs: {progs.show(case["lhs"])}\nrhs: '
                                                        f'{progs.show(case["rhs"])}\nepoch {e}: lhs {a}\n         rhs {b}')
        return
    try:
        ra, rb = record(dl), record(dr)
        if case.get('strict_keys') and (ra['keys'] is None) != (rb['keys'] is None):
            raise Violation(f'{case["law"]}|keys-refusal',
                            f'keys(): lhs {"refuses" if ra["keys"] is None else ra["keys"]}, '
                            f'rhs {"refuses" if rb["keys"] is None else rb["keys"]}')
        compare(ra, rb, case['law'])
        if case.get('strict_errors') and ra['keys'] is not None and rb['keys'] is not None:
            for k in ra['lookup']:
                x, y = ra['lookup'][k], rb['lookup'].get(k)
                if y is not None and x[0] == y[0] == 'e' and x[1] != y[1] and not ({x[1], y[1]} & REFUSALS):
                    raise Violation(f'{case["law"]}|lookup-error', f'ds[{k!r}]: lhs raises {x[1]}, rhs raises {y[1]}')
    except Violation as v:
        raise Violation(v.sig, f'law {case["law"]}\nlhs: {progs.show(case["lhs"])}\nrhs: {progs.show(case["rhs"])}\n'
                        + v.detail)


def replay(case):
    progcheck.setup_process()
    check(case)


def run_shard(tier, idx, nshards, rec, known):
    progcheck.setup_process()

    def one(case):
        check(case)
        rec.case({'law': case['law'], 'lhs': progs.show(case['lhs']), 'rhs': progs.show(case['rhs'])},
                 not case['trivial'], ['law:' + case['law'], f'ctx-depth:{progs.depth(case["lhs"])}'],
                 size=progs.size(case['lhs']))
    outs = [drive(one, st_law(), N[tier], rec, known, seed() * 1000 + idx)]
    if outs[0].violation:
        return outs

    def one_direct(case):
        check(case)
        rec.case(case, True, ['law:' + case['direct']], size=case['n'])

    @st.composite
    def st_direct(draw):
        n = draw(st.integers(0, 7))
        if draw(st.booleans()):
            return {'direct': 'cache_scattered', 'n': n, 'keyed': draw(st.booleans()),
                    'fill': draw(st.sampled_from(['index', 'index', 'shuffle', 'reverse'])),
                    'order': draw(st.lists(st.integers(-n, max(n - 1, 0)), min_size=n, max_size=2 * n + 1)),
                    'seed': draw(st.integers(0, 20)), 'copy': draw(st.booleans())}
        return {'direct': 'map_batch_failing', 'n': n, 'batch': draw(st.integers(1, 4)),
                'fail': draw(st.lists(st.integers(0, max(n - 1, 0)), min_size=0, max_size=3, unique=True)),
                'exc': draw(st.sampled_from(['FilterException', 'FilterException', 'VErrA', 'ValueError']))}
    outs.append(drive(one_direct, st_direct(), max(200, N[tier] // 6), rec, known, seed() * 1000 + 700 + idx))
    return outs
