"""C18 - sorting and grouping reorder without losing or inventing examples."""
import functools

from hypothesis import strategies as st

from ..common import Violation, drive, seed

PID = 'C18'
RULE = ('Hypothesis: datasets (list- or dict-backed, n 0..8, optionally below a map / slice / concatenate stage) with '
        'dict payloads (incomparable), sort values with heavy ties, reverse on/off, sort_fn in {sorted, a wrapper, '
        'functools.partial(sorted), sorted-on-reversed-input, an inverting order}, reverse given as bool / int / numpy '
        'bool, key-less sort of dict-backed data; groupby with '
        'arbitrary hashable group ids (ints, strings, tuples, None, frozensets, NaN, mixed). Oracle: the result is a '
        'permutation (by example id), sort keys monotone in the requested direction, no exception from comparing '
        'payloads, keys()/items() keep each example under its own key, key-less sort orders by key (reverse '
        'honoured); groups partition the dataset, each example in the group its id names, relative order kept. '
        'Non-trivial: n >= 3 with >= 1 tie, or reverse, or key-less, or >= 2 groups with a non-contiguous group; '
        'distinct by case JSON.')
ASSUMPTIONS = [
    'tie order is not part of the statement: only monotonicity of the sort keys is required, not stability',
    'a custom sort_fn receives an iterable of comparable items and a reverse keyword (the documented contract)',
]
N = {'quick': 2500, 'thorough': 12000}


def plan(tier):
    return {'shards': 4 if tier == 'quick' else 16}


GIDS = [0, 1, 2, 'a', 'b', ('t', 1), ('t', 2), None, frozenset([1]), frozenset([1, 2]), frozenset([3]), -1, 'A', True,
        float('nan')]  # NaN: an id that is not equal to itself (a missing label); its examples still belong somewhere


def is_nan(x):
    return isinstance(x, float) and x != x


BIG = [2 ** 53 + 1, 2 ** 53 + 2, 2 ** 53 + 3, 1.5, 2 ** 60, -2.5, 2 ** 53, 7]


def natural(it, reverse=False):
    """A sort_fn that disagrees with sorted() on strings: shorter strings first (natural sort of 'k2' < 'k10')."""
    return sorted(list(it), key=lambda x: (len(x), x) if isinstance(x, str) else (0, x), reverse=reverse)


class FalsyKey(dict):
    """A callable key function whose truth value is False (an empty memoising dict with __call__)."""

    def __call__(self, e):
        return e['v']


def sort_fns(name):
    if name == 'natural':
        return natural
    if name == 'sorted':
        return None
    if name == 'wrapper':
        return lambda it, reverse=False: sorted(list(it), reverse=reverse)
    if name == 'partial':
        return functools.partial(sorted)
    if name == 'rev_input':
        return lambda it, reverse=False: sorted(list(it)[::-1], reverse=reverse)
    if name == 'one_shot':
        # a sort function that answers with a one-shot iterator (a heap-based merge sort, reversed(...))
        return lambda it, reverse=False: iter(sorted(list(it), reverse=reverse))
    if name == 'inverting':
        # the caller's own ordering (largest first): the supplied function decides the order, not the builtin
        return lambda it, reverse=False: sorted(list(it), reverse=not reverse)
    raise ValueError(name)


def build(case):
    import lazy_dataset
    n = case['n']
    sv = case['sortvals']
    if case.get('big'):
        sv = [BIG[v % len(BIG)] for v in case['bigvals']]
    if case.get('listkeys'):
        sv = [[v, 'x'] for v in sv]  # comparable but unhashable sort values ([speaker, length])
    if case.get('unsigned'):
        import numpy as np
        sv = [[np.uint8, np.uint16, np.uint32][case['unsigned'] % 3](v) for v in sv]  # e.g. a length read from a file
    exs = [{'id': i, 'v': sv[i], 'pay': {'nested': [i]}} for i in range(n)]
    if case['src'] == 'dict':
        keys = case['keys']
        ds = lazy_dataset.new({k: dict(e, key=k) for k, e in zip(keys, exs)})
    else:
        ds = lazy_dataset.new(exs)
    up = case.get('upstream')
    if up == 'map':
        ds = ds.map(lambda e: dict(e, mapped=True))
    elif up == 'slice':
        ds = ds[::-1][::-1]
    elif up == 'concat' and n >= 2:
        ds = ds[:n // 2].concatenate(ds[n // 2:])
    elif up == 'cache':
        ds = ds.cache()
    elif up in ('cache_warm_rev', 'cache_warm_shuffled', 'nested_concat'):
        if up == 'nested_concat' and n >= 3:
            # a concatenation of a concatenation (train + dev + test built step by step)
            ds = ds[:1].concatenate(ds[1:2]).concatenate(ds[2:])
        else:
            # a memory cache that an earlier epoch over a reversed / shuffled view has filled completely, out of order
            import numpy as np
            ds = ds.cache(keep_mem_free='1 KB')
            list(ds[::-1] if up == 'cache_warm_rev' else ds.shuffle(False, rng=np.random.RandomState(n)))
    return ds


def check(case):
    n = case['n']
    desc = f'{case}'
    ds = build(case)
    ids = list(range(n))
    if case['op'] == 'sort':
        kw = {}
        f = sort_fns(case['sort_fn'])
        if f is not None:
            kw['sort_fn'] = f
        rev = case['reverse']
        # the flag as callers produce it: a bool, an int, or a numpy bool from a comparison
        rev_arg = {'bool': bool, 'int': int, 'np': __import__('numpy').bool_}[case.get('reverse_as', 'bool')](rev)
        if case.get('key_raises') is not None and not case['keyless'] and n:
            # the key function fails for one example (StopIteration is what a bare next() raises): sort must fail
            # too - a result that silently lacks examples is not a permutation
            bad, ename = case['key_raises'][0] % n, case['key_raises'][1]
            exc_t = {'StopIteration': StopIteration, 'ValueError': ValueError, 'KeyError': KeyError}[ename]

            def failing_key(e):
                if e['id'] == bad:
                    raise exc_t('no sort value for this example')
                return e['v']
            try:
                out = ds.sort(failing_key, reverse=rev_arg, **kw)
                got = list(out)
            except BaseException as e:  # noqa
                if isinstance(e, (KeyboardInterrupt, SystemExit)):
                    raise
                return True
            raise Violation('sort-swallowed-key-error', f'{desc}\nthe key function raised {ename} for example {bad}; '
                                                        f'sort returned {[e["id"] for e in got]}')
        try:
            if case.get('positional'):
                # the documented parameter order, given positionally: sort(key_fn, sort_fn, reverse)
                kf = None if case['keyless'] else (FalsyKey() if case.get('falsy_key') else (lambda e: e['v']))
                out = ds.sort(kf, kw.get('sort_fn', sorted), rev_arg)
            elif case['keyless']:
                out = ds.sort(reverse=rev_arg, **kw)
            else:
                out = ds.sort(FalsyKey() if case.get('falsy_key') else (lambda e: e['v']), reverse=rev_arg, **kw)
            got = list(out)
        except Exception as e:
            raise Violation('sort-raised', f'{desc}\n{type(e).__name__}: {e}')
        gids = [e['id'] for e in got]
        if sorted(gids) != ids:
            raise Violation('sort-not-a-permutation', f'{desc}\nresult ids {gids}')
        if len(out) != n:
            raise Violation('sort-len', f'{desc}\nlen {len(out)}')
        if case['sort_fn'] == 'inverting':
            rev = not rev  # expected direction under the supplied ordering
        if case['keyless']:
            ks = [e['key'] for e in got]
            want_ks = natural(ks, reverse=rev) if case['sort_fn'] == 'natural' else sorted(ks, reverse=rev)
            if ks != want_ks:
                raise Violation('keyless-sort-order', f'{desc}\nkeys in result order: {ks}; sort_fn gives {want_ks}')
        else:
            vs = [e['v'] for e in got]
            ok = all(a >= b for a, b in zip(vs, vs[1:])) if rev else all(a <= b for a, b in zip(vs, vs[1:]))
            if not ok:
                raise Violation('sort-not-monotone', f'{desc}\nsort keys in result order: {vs}')
        if case['src'] == 'dict':
            ks = list(out.keys())
            if ks != [e['key'] for e in got]:
                raise Violation('sort-keys-detached', f'{desc}\nkeys() {ks} vs examples {[e["key"] for e in got]}')
            for k, e in out.items():
                if e['key'] != k:
                    raise Violation('sort-items-detached', f'{desc}\nitems() pairs {k!r} with example of {e["key"]!r}')
            for k in ks:
                if out[k]['key'] != k:
                    raise Violation('sort-lookup-detached', f'{desc}\nout[{k!r}] is the example of {out[k]["key"]!r}')
        if not case['keyless']:
            # the SAME dataset object sorted again with other (short-lived) key functions: nothing may be remembered
            for mult in (3, 5, 7):
                again = [e for e in ds.sort(lambda e, mult=mult: (e['id'] * mult + 1) % 5)]
                vs2 = [(e['id'] * mult + 1) % 5 for e in again]
                if sorted(e['id'] for e in again) != ids or any(a > b for a, b in zip(vs2, vs2[1:])):
                    raise Violation('repeated-sort-wrong', f'{desc}\nafter the sort above, sort by (id*{mult}+1)%5 gave '
                                                           f'ids {[e["id"] for e in again]} with keys {vs2}')
        ties = len(set(case['sortvals'][:n])) < n
        return (n >= 3 and ties) or case['reverse'] or case['keyless']
    # groupby
    gid = case['gids']
    if case.get('group_raises') is not None and n:
        import lazy_dataset
        bad = case['group_raises'] % n

        def failing_group(e):
            if e['id'] == bad:
                raise lazy_dataset.FilterException('no group for this example')
            return GIDS[gid[e['id']]]
        try:
            groups = ds.groupby(failing_group)
            got = {k: [e['id'] for e in v] for k, v in groups.items()}
        except BaseException as e:  # noqa: the failure of the group function surfaces
            if isinstance(e, (KeyboardInterrupt, SystemExit)):
                raise
            return True
        raise Violation('groupby-swallowed-error', f'{desc}\nthe group function failed for example {bad}; groupby '
                                                   f'returned {got}')
    try:
        groups = ds.groupby(lambda e: GIDS[gid[e['id']]])
        lists = {k: list(v) for k, v in groups.items()}
    except Exception as e:
        raise Violation('groupby-raised', f'{desc}\n{type(e).__name__}: {e}')
    want = {}
    nan_ids = []
    for i in ids:
        if is_nan(GIDS[gid[i]]):
            nan_ids.append(i)
        else:
            want.setdefault(GIDS[gid[i]], []).append(i)
    got = {k: [e['id'] for e in v] for k, v in lists.items() if not is_nan(k)}
    if got != want:
        raise Violation('groups-wrong', f'{desc}\ngroups {got}\nexpected {want}')
    # asking for a group that does not exist is an error and leaves the partition as it is
    names_before = [repr(k) for k in groups.keys()]
    try:
        ghost = groups['no-such-group-id']
    except KeyError:
        pass
    else:
        raise Violation('groups-absent-id-answered', f'{desc}\ngroups[<absent id>] returned {ghost!r}')
    if [repr(k) for k in groups.keys()] != names_before:
        raise Violation('groups-absent-id-answered', f'{desc}\nlooking up an absent id changed the groups: '
                                                     f'{list(groups.keys())}')
    # an id that is not equal to itself names no single group; its examples must still each lie in exactly one group
    # (under such an id), in their relative order
    got_nan = [[e['id'] for e in v] for k, v in lists.items() if is_nan(k)]
    flat = sorted(i for g in got_nan for i in g)
    if flat != nan_ids or any(g != sorted(g) for g in got_nan):
        raise Violation('groups-not-a-partition', f'{desc}\nexamples with a NaN group id: {nan_ids}; groups under '
                                                  f'a NaN id: {got_nan}')
    if case['src'] == 'dict':
        for k, g in groups.items():
            for kk, e in g.items():
                if e['key'] != kk:
                    raise Violation('group-items-detached', f'{desc}\ngroup {k!r}: {kk!r} paired with {e["key"]!r}')
    runs = sum(1 for a, b in zip(gid[:n], gid[1:n]) if a != b) + 1 if n else 0
    return len(want) >= 2 and runs > len(want)


def replay(case):
    check(case)


@st.composite
def st_case(draw):
    n = draw(st.integers(0, 8))
    src = draw(st.sampled_from(['list', 'dict']))
    case = {'n': n, 'src': src, 'sortvals': draw(st.lists(st.integers(0, 3), min_size=8, max_size=8)),
            'upstream': draw(st.sampled_from([None, None, 'map', 'slice', 'concat', 'cache', 'cache_warm_rev',
                                                 'cache_warm_shuffled', 'nested_concat']))}
    if src == 'dict':
        case['keys'] = draw(st.permutations(['k%d' % i for i in (0, 1, 2, 3, 10, 11, 20, 100)]))[:n]
    case['op'] = draw(st.sampled_from(['sort', 'sort', 'groupby']))
    if case['op'] == 'sort':
        case['reverse'] = draw(st.booleans())
        case['sort_fn'] = draw(st.sampled_from(['sorted', 'sorted', 'wrapper', 'partial', 'rev_input', 'inverting', 'one_shot']))
        case['reverse_as'] = draw(st.sampled_from(['bool', 'bool', 'int', 'np']))
        case['positional'] = draw(st.integers(0, 3)) == 0
        if draw(st.integers(0, 5)) == 0:
            case['key_raises'] = [draw(st.integers(0, 7)), draw(st.sampled_from(['StopIteration', 'StopIteration',
                                                                                 'ValueError', 'KeyError']))]
        case['keyless'] = src == 'dict' and draw(st.booleans())
        if case['keyless'] and case['sort_fn'] == 'one_shot':
            case['sort_fn'] = 'sorted'  # (the key-less branch indexes with what sort_fn returns: it has to be a list)
        if case['keyless'] and draw(st.booleans()):
            case['sort_fn'] = 'natural'
        if not case['keyless'] and draw(st.integers(0, 3)) == 0:
            case['big'] = True
            case['bigvals'] = draw(st.lists(st.integers(0, 7), min_size=8, max_size=8))
        elif not case['keyless'] and draw(st.integers(0, 3)) == 0:
            case['unsigned'] = draw(st.integers(1, 3))
        elif not case['keyless'] and draw(st.integers(0, 3)) == 0:
            case['listkeys'] = True
        if not case['keyless'] and draw(st.integers(0, 4)) == 0:
            case['falsy_key'] = True
    else:
        palette = draw(st.lists(st.integers(0, len(GIDS) - 1), min_size=1, max_size=4))
        case['gids'] = draw(st.lists(st.sampled_from(palette), min_size=8, max_size=8))
        if draw(st.integers(0, 5)) == 0:
            case['group_raises'] = draw(st.integers(0, 7))
    return case


def run_shard(tier, idx, nshards, rec, known):
    def one(case):
        nt = check(case)
        cls = ['op:' + case['op'], 'src:' + case['src'], 'up:' + str(case['upstream'])]
        if case['op'] == 'sort':
            cls += ['sort_fn:' + case['sort_fn'], 'reverse' if case['reverse'] else 'forward']
            if case['keyless']:
                cls.append('keyless')
        rec.case(case, nt, cls, size=case['n'])
    return [drive(one, st_case(), N[tier], rec, known, seed() * 1000 + idx)]
