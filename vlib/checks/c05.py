"""C05 - stopping a prefetching iteration anywhere terminates cleanly (exact deadlock detection under the harness)."""
from .. import sched_engine as E
from ..common import seed
from . import sched_common as SC

PID = 'C05'
RULE = ('C04 workloads x stop point k in 0..n+1 x stop kind (exhaust, close(), del, del+gc.collect(), source or '
        'function raising) x buffer sizes from 1 x schedule. Oracle: (a) no deadlock - exact: a thread blocks and no '
        'thread is enabled; (b) every logical background thread has finished when control is back; (c) no '
        'pull/start/end event after that moment; (d) for consumer-initiated stops no submitted task is pending and '
        'un-cancelled when the executor shuts down. Non-trivial: the consumer stopped before exhaustion with >=1 '
        'example not yet delivered, or buffer_size == 1; distinct by (workload, thread sequence hash).')
ASSUMPTIONS = [
    'liveness is decided as deadlock-freedom plus a step bound under the harness; no wall clock is involved',
    'model executor as in C04; "cancelled rather than executed" is read as: nothing pending and un-cancelled at '
    'shutdown (tasks a worker grabs while the cancellation sweep is running are a legitimate race)',
    'error-initiated ends are exempt from (d), as the statement says',
]
N = {'quick': 1500, 'thorough': 8000}
SHARDS = {'quick': 4, 'thorough': 16}


def plan(tier):
    return {'shards': SHARDS[tier]}


def judge(tr):
    E.judge_termination(tr)
    E.judge_cancel(tr)
    E.judge_values(tr, check_len=False)


def nontrivial(case, tr):
    return (tr.stopped_by_consumer and len(tr.delivered) < case['n']) or case['buffer'] == 1


replay = SC.replay_with(judge)


POOL_RUNS = {'quick': 10, 'thorough': 250}


def run_shard(tier, idx, nshards, rec, known):
    outs = [SC.run_profile('stop', judge, nontrivial, rec, known, N[tier], seed() * 1000 + idx)]
    if not outs[0].violation:
        # part "dfs": every schedule with a bounded number of preemptions for small workloads (exhaustive)
        outs.append(SC.run_dfs(SC.dfs_workloads('stop', tier), judge, nontrivial, rec, known, idx, nshards))
    if idx == 0 and not any(o.violation for o in outs):
        # part "pools": the five real backends (threads and process pools) with delay tables
        outs.append(SC.run_pools('stop', rec, known, POOL_RUNS[tier], seed() * 1000 + 999))
    return outs
