"""C05 - stopping a prefetching iteration anywhere terminates cleanly (exact deadlock detection under the harness)."""
from .. import sched_engine as E
from ..common import Violation, seed
from . import sched_common as SC

PID = 'C05'
RULE = ('C04 workloads x stop point k in 0..n+1 x stop kind (exhaust, close(), del, del+gc.collect(), source or '
        'function raising) x buffer sizes from 1 x schedule. Oracle: (a) no deadlock - exact: a thread blocks and no '
        'thread is enabled; (b) every logical background thread has finished when control is back; (c) no '
        'pull/start/end event after that moment; (d) for consumer-initiated stops no submitted task is pending and '
        'un-cancelled when the executor shuts down. Non-trivial: the consumer stopped before exhaustion with >=1 '
        'example not yet delivered, or buffer_size == 1; distinct by (workload, thread sequence hash).')
ASSUMPTIONS = [
    'liveness is decided as deadlock-freedom plus a step bound under the harness; no wall clock is involved',
    'model executor as in C04; "cancelled rather than executed" is read as: nothing pending and un-cancelled at '
    'shutdown (tasks a worker grabs while the cancellation sweep is running are a legitimate race)',
    'error-initiated ends are exempt from (d), as the statement says',
]
N = {'quick': 1500, 'thorough': 8000}
SHARDS = {'quick': 4, 'thorough': 16}


def plan(tier):
    return {'shards': SHARDS[tier]}


def judge(tr):
    E.judge_termination(tr)
    E.judge_cancel(tr)
    E.judge_values(tr, check_len=False)


def nontrivial(case, tr):
    return (tr.stopped_by_consumer and len(tr.delivered) < case['n']) or case['buffer'] == 1


_sched_replay = SC.replay_with(judge)


def _fail_at(p, ename, x):
    # module level: the process-pool backends have to pickle it
    if x == p:
        from .. import progs
        raise progs.exc_class(ename)('fn', x)
    return x


def check_error_leak(case):
    """An error INSIDE the pipeline ends the iteration; the consumer handles the exception and lets go of it. At that
    moment (no waiting, no garbage collection: the clean-up of a generator is synchronous) every hand-over thread of the
    pipeline has exited - also the thread of a healthy sibling input / of the input below a parallel map. Real threads;
    the verdict does not depend on timing: a leaked thread is blocked in put() for good."""
    import gc
    import threading
    import lazy_dataset
    from .. import progs
    n, p, b = case['n'], case['fail_at'], case['buffer']
    E_ = progs.exc_class(case['exc'])

    import functools
    bad = functools.partial(_fail_at, p, case['exc'])

    def src():
        return lazy_dataset.new(list(range(n)))
    shape = case['shape']
    if shape in ('intersperse', 'zip', 'concatenate'):
        good, failing = src().prefetch(1, b), src().map(bad)
        pair = (good, failing) if case['good_first'] else (failing, good)
        ds = getattr(pair[0], shape)(pair[1])
        ds = ds.prefetch(1, case['outer']) if case['outer'] else ds
    elif shape == 'parmap':
        ds = src().prefetch(1, b).map(bad, num_workers=2, buffer_size=max(2, case['outer']), backend=case['backend'])
    else:  # 'prefetch_pool': failing map below a multi-worker prefetch above a healthy... single-thread stage
        ds = src().prefetch(1, b).map(bad).prefetch(1, max(1, case['outer']))
    was = gc.isenabled()
    gc.disable()
    before = set(threading.enumerate())
    got = []
    try:
        try:
            for x in ds:
                got.append(x)
        except E_:
            pass
        else:
            if p < n:
                raise Violation('error-swallowed|leak-part', f'{case}\nthe failing example {p} never surfaced; got {got}')
        leaked = [t.name for t in threading.enumerate() if t not in before and t.is_alive() and '(worker)' in t.name]
        if leaked:
            raise Violation(f'thread-alive-after-error|{shape}',
                            f'{case}\nthe pipeline failed at example {p}, the consumer caught the exception and let go '
                            f'of it; hand-over threads still alive (blocked, until some garbage collection): {leaked}')
    finally:
        del ds
        gc.collect()
        if was:
            gc.enable()


def error_leak_cases(tier):
    out = []
    for shape in ('intersperse', 'zip', 'concatenate'):
        for good_first in (True, False):
            for outer in (0, 1, 2):
                for p_ in (0, 2) if tier == 'quick' else (0, 1, 2, 5):
                    for exc in ('VErrA', 'VBase') if outer else ('VErrA',):
                        out.append({'leak': True, 'shape': shape, 'good_first': good_first, 'outer': outer, 'n': 6,
                                    'fail_at': p_, 'buffer': 1 + (p_ % 2), 'exc': exc})
    for be in ('t', 'thread', 'dill_mp', 'concurrent_mp'):
        for p_ in (0, 2, 4):
            out.append({'leak': True, 'shape': 'parmap', 'backend': be, 'outer': 2 + p_ % 2, 'n': 6, 'fail_at': p_,
                        'buffer': 2, 'exc': 'VErrA'})
    for p_ in (0, 3):
        out.append({'leak': True, 'shape': 'stacked', 'outer': 2, 'n': 6, 'fail_at': p_, 'buffer': 1, 'exc': 'VErrA'})
    return out


def replay(case):
    if case.get('leak'):
        from .. import progcheck
        progcheck.setup_process()
        return check_error_leak(case)
    return _sched_replay(case)


POOL_RUNS = {'quick': 10, 'thorough': 250}


def run_shard(tier, idx, nshards, rec, known):
    outs = [SC.run_profile('stop', judge, nontrivial, rec, known, N[tier], seed() * 1000 + idx)]
    if not outs[0].violation:
        # part "dfs": every schedule with a bounded number of preemptions for small workloads (exhaustive)
        outs.append(SC.run_dfs(SC.dfs_workloads('stop', tier), judge, nontrivial, rec, known, idx, nshards))
    if idx == 1 % nshards and not any(o.violation for o in outs):
        # part "error-leak": real threads, an error inside the pipeline, no garbage collection
        from ..common import Outcome
        o = Outcome()
        for case in error_leak_cases(tier):
            try:
                check_error_leak(case)
            except Violation as v:
                if known.match(v.sig):
                    rec.known_hits[v.sig.split('|')[0]] += 1
                    continue
                o.violation = (case, v.sig, v.detail)
                break
            rec.case(case, True, ['error-leak:' + case['shape']], size=case['n'])
        outs.append(o)
    if idx == 0 and not any(o.violation for o in outs):
        # part "pools": the five real backends (threads and process pools) with delay tables
        outs.append(SC.run_pools('stop', rec, known, POOL_RUNS[tier], seed() * 1000 + 999))
    return outs
