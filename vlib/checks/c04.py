"""C04 - prefetch and parallel map are transparent for every schedule (harness-owned schedules of the real code)."""
from .. import sched_engine as E
from ..common import seed
from . import sched_common as SC

PID = 'C04'
RULE = ('workload (single_thread_prefetch | lazy_parallel_map | PrefetchDataset | ParMapDataset; n 0..6, workers 1..3, '
        'buffer workers..4, value/key iteration, per-task yield tables with one slow task) x schedule (Hypothesis '
        'choice list over every source line of parallel_utils.py and every queue/thread/executor operation, or <=4 '
        'preemption points); oracle: delivered sequence == sequential semantics (exactly once, in order), len equal, '
        'no deadlock. Non-trivial: >=2 threads runnable at some decision AND (a task finished before an '
        'earlier-submitted one OR >=1 preemption); distinct by (workload, hash of the executed thread sequence).')
ASSUMPTIONS = [
    'threads are scheduled at source-line granularity of parallel_utils.py plus primitive operations; byte-code '
    'level races inside one line are not explored',
    'concurrent.futures.ThreadPoolExecutor is represented by a model executor (FIFO work queue, <= max_workers '
    'workers, cancel only while pending, shutdown(wait=True) runs pending non-cancelled work and joins workers)',
    'process-pool backends are exercised by real pools with delay tables (part pools), not by owned schedules',
]
N = {'quick': 1200, 'thorough': 12000}
SHARDS = {'quick': 4, 'thorough': 16}


def plan(tier):
    return {'shards': SHARDS[tier]}


def judge(tr):
    E.judge_termination(tr)
    E.judge_values(tr)


def nontrivial(case, tr):
    return tr.sched.max_enabled >= 2 and (E.reordered(tr) or tr.sched.preemptions >= 1)


replay = SC.replay_with(judge)


POOL_RUNS = {'quick': 20, 'thorough': 400}


def run_shard(tier, idx, nshards, rec, known):
    outs = [SC.run_profile('plain', judge, nontrivial, rec, known, N[tier], seed() * 1000 + idx)]
    if not outs[0].violation:
        # part "dfs": every schedule with a bounded number of preemptions for small workloads (exhaustive)
        outs.append(SC.run_dfs(SC.dfs_workloads('plain', tier), judge, nontrivial, rec, known, idx, nshards))
    if idx == 0 and not any(o.violation for o in outs):
        # part "pools": the five real backends (threads and process pools) with delay tables
        outs.append(SC.run_pools('plain', rec, known, POOL_RUNS[tier], seed() * 1000 + 999))
    return outs
