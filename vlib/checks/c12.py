"""C12 - every shuffle is a permutation, for every iterator in flight."""
import itertools

import numpy as np
from hypothesis import strategies as st

from ..common import Outcome, Violation, drive, seed

PID = 'C12'
RULE = ('stage in {one-time shuffle, reshuffle, local shuffle(buffer), tile(r, shuffle=True), random_choice(size, '
        'replace=False), reshuffle behind catch()/lazy apply/copy()} x n x buffer 1..n+1 x seed x an explicit '
        'interleaving word of the next() calls of 1-3 iterators over the SAME dataset object (all words for small n, '
        'Hypothesis-drawn beyond), plus the self-zip / self-intersperse compositions. Oracle: multiset(output of '
        'each iterator) == multiset(input); sampled indices pairwise distinct; local shuffle: source position - '
        'output position <= buffer_size - 1. Non-trivial: >=2 iterators whose next() calls alternate at least once, '
        'or buffer < n; distinct by (stage, n, buffer, seed, word). Plus: shuffles derived from a selection while an '
        'iteration over that selection is in flight; samples of 3 999 out of 400 000 for 40 / 400 seeds.')
ASSUMPTIONS = [
    'examples are their own source index, so duplication / loss / displacement are read off the values',
    'known open finding K1: an iterator over a ReShuffleDataset that is overlapped by a later-started iterator on '
    'the same object is reported as KNOWN-FINDING (signature overlapped-reshuffle-iterator); every other iterator '
    '(not overlapped, last started, sequential epochs, all other stages) is still required to be a permutation',
]
N_RANDOM = {'quick': 1500, 'thorough': 10000}
STAGES = ['shuffle_once', 'reshuffle', 'local', 'local_copy', 'reshuffle_catch', 'reshuffle_apply', 'reshuffle_copy',
          'reshuffle_prefetch', 'reshuffle_prefetch_thread1', 'reshuffle_and_copies', 'local_items', 'reshuffle_items', 'tile_shuffle', 'choice',
          'reshuffle_filter_frozen', 'reshuffle_batch_frozen', 'reshuffle_local_frozen']


# stages whose iteration runs ReShuffleDataset.__iter__ directly on the shared object (the K1 situation)
BARE_RESHUFFLE = ('reshuffle', 'reshuffle_copy', 'reshuffle_items')


def plan(tier):
    return {'shards': 4 if tier == 'quick' else 16, 'exhaustive': True}


NONE_AT = [None]  # position whose example is None instead of its index (translated back before judging)


def build(stage, n, buf, sd, extra):
    import lazy_dataset
    base = lazy_dataset.new([None if i == NONE_AT[0] else i for i in range(n)])
    rng = np.random.RandomState(sd)
    if stage == 'shuffle_once':
        # the rng is a legacy RandomState or a numpy Generator
        return base.shuffle(False, rng=np.random.default_rng(sd) if sd % 3 == 2 else rng), n
    if stage == 'reshuffle':
        return base.shuffle(True, rng=rng), n
    if stage == 'reshuffle_copy':
        return base.shuffle(True, rng=rng).map(lambda x: x).copy(), n
    if stage == 'reshuffle_catch':
        return base.shuffle(True, rng=rng).map(lambda x: x).catch(), n
    if stage in ('reshuffle_filter_frozen', 'reshuffle_batch_frozen', 'reshuffle_local_frozen'):
        # a FROZEN copy the caller keeps (one fixed order), above a per-epoch reshuffle and a stage that forwards
        # copy(freeze): iterators in flight over it each see the whole dataset
        rs = base.shuffle(True, rng=rng)
        if stage == 'reshuffle_filter_frozen':
            return rs.filter(lambda x: True).copy(freeze=True), n
        if stage == 'reshuffle_batch_frozen':
            return rs.batch(2).unbatch().copy(freeze=True), n
        return rs.shuffle(True, rng=np.random.RandomState(sd + 1), buffer_size=2).copy(freeze=True), n
    if stage == 'reshuffle_and_copies':
        rs = base.shuffle(True, rng=rng)
        return [rs, rs.copy(), rs.map(lambda x: x).copy()], n  # every iterator gets its OWN object
    if stage in ('local_items', 'reshuffle_items'):
        keyed = lazy_dataset.new({f'key{i}': i for i in range(n)})
        if stage == 'local_items':
            return keyed.shuffle(True, rng=rng, buffer_size=buf).items().map(unpair), n
        return keyed.shuffle(True, rng=rng).items().map(unpair), n
    if stage == 'reshuffle_prefetch':
        return base.shuffle(True, rng=rng).map(lambda x: x).prefetch(2, 2), n
    if stage == 'reshuffle_prefetch_thread1':
        return base.shuffle(True, rng=rng).map(lambda x: x).prefetch(1, 2, backend='thread'), n
    if stage == 'reshuffle_apply':
        return base.shuffle(True, rng=rng).apply(lambda d: d.map(lambda x: x), lazy=True), n
    if stage == 'local':
        return base.shuffle(True, rng=rng, buffer_size=buf), n
    if stage == 'local_copy':
        return base.shuffle(True, rng=rng, buffer_size=buf).map(lambda x: x).copy(), n
    if stage == 'tile_shuffle':
        np.random.seed(sd)
        return base.tile(extra, shuffle=True), n * extra
    if stage == 'choice':
        # "without replacement" as callers spell it: False, 0, or a numpy bool from a comparison
        flag = [False, 0, np.False_, np.bool_(0)][sd % 4]
        return base.random_choice(extra, replace=flag, rng_state=rng), extra
    raise ValueError(stage)


def unpair(kv):
    """(key, example) -> example, checking that the pair carries the example's own key."""
    if not (isinstance(kv, tuple) and len(kv) == 2 and kv[0] == f'key{kv[1]}'):
        raise Violation('items-pair-wrong|keyed-shuffle', f'items() of a shuffled dataset yielded {kv!r}')
    return kv[1]


def run_word(ds, word, n_iters, idle_at=None):
    """Drive n_iters iterators over the same object with an explicit next() order. Returns outputs, overlap info."""
    if isinstance(ds, list):
        its = [iter(ds[i % len(ds)]) for i in range(n_iters)]  # distinct objects (an original and its copies)
    else:
        its = [iter(ds) for _ in range(n_iters)]
    outs = [[] for _ in range(n_iters)]
    idle = []
    started = [None] * n_iters
    finished = [None] * n_iters
    clock = 0
    def order():
        yield from word
        while True:  # after the word: round robin until every iterator is exhausted
            yield from range(n_iters)
    for w in order():
        if all(f is not None for f in finished):
            break
        if finished[w] is not None:
            continue
        clock += 1
        if idle_at is not None and clock == idle_at + 1:
            # an iterator that is only CREATED (iter(ds)) and never advanced: creating it starts nothing
            idle.append(iter(ds[0] if isinstance(ds, list) else ds))
        if started[w] is None:
            started[w] = clock
        try:
            outs[w].append(next(its[w]))
        except StopIteration:
            finished[w] = clock
        if clock > 400000:
            raise Violation('iteration-does-not-end', 'more than 400000 next() calls')
    for it in idle:
        if hasattr(it, 'close'):
            it.close()
    # X is a victim if another iterator started strictly inside X's lifetime
    victim = [any(j != i and started[i] < started[j] < finished[i] for j in range(n_iters)) for i in range(n_iters)]
    alternations = sum(1 for a, b in zip(word, word[1:]) if a != b)
    return outs, victim, alternations


def check_inflight(case):
    """An iteration over a selection is in flight while shuffled datasets are DERIVED from that same object and
    iterated: the in-flight iteration still yields every example of the selection once (in the selection's order),
    and every derived shuffle is a permutation of it."""
    import lazy_dataset
    n, sd, j = case['n'], case['seed'], case['j']
    base = lazy_dataset.new(list(range(n)))
    rng = np.random.RandomState(sd)
    pk = case['parent']
    if pk == 'npsel':
        sel = list(np.random.RandomState(sd + 1).permutation(n)[:max(1, n - 1)]) if n else []
        parent = base[np.array(sel, dtype=np.int64)]
    elif pk == 'shuffle_once':
        parent = base.shuffle(False, rng=np.random.RandomState(sd + 2))
        sel = list(parent)
    elif pk == 'reshuffle':
        parent = base.shuffle(True, rng=np.random.RandomState(sd + 3))  # order differs per pass: multisets compared
        sel = list(range(n))
    elif pk == 'shard':
        parent = base.shard(2, 1) if n >= 2 else base
        sel = list(parent)
    else:
        parent = base[::-1]
        sel = list(range(n))[::-1]
    sel = [int(x) for x in sel]
    it = iter(parent)
    got = []
    for _ in range(min(j, len(sel))):
        got.append(next(it))
    derived = []
    derive_list = case['derive']
    if pk == 'reshuffle':
        # a reshuffled dataset is not indexable: only what can be derived from it
        # (one kind per case, so that the signature names the derivation that was in play)
        derive_list = ([d for d in derive_list if d in ('copy', 'copy_frozen')] or ['copy'])[:1]
    else:
        derive_list = [d for d in derive_list if d != 'copy_frozen' or True]
    case = dict(case, derive=derive_list)
    for d in case['derive']:
        if d == 'shuffle_once':
            ds = parent.shuffle(False, rng=rng)
        elif d == 'tile_shuffle':
            np.random.seed(sd)
            ds = parent.tile(2, shuffle=True)
        elif d == 'reshuffle':
            ds = parent.shuffle(True, rng=rng)
        elif d == 'copy':
            ds = parent.copy()
        elif d == 'copy_frozen':
            ds = parent.copy(freeze=True)
        else:
            ds = parent.random_choice(len(sel), replace=False, rng_state=rng)
        out = list(ds)
        mult = 2 if d == 'tile_shuffle' else 1
        if sorted(out) != sorted(sel * mult):
            raise Violation(f'not-a-permutation|derived-{d}', f'{case}\nderived {d} yielded {out}; the selection is {sel}')
        derived.append(ds)
    got += list(it)
    if pk == 'reshuffle':
        if sorted(got) != sel:
            raise Violation('inflight-iteration-disturbed|' + pk + '+' + case['derive'][0],
                            f'{case}\nthe pass over a reshuffled dataset that was in flight while {case["derive"]} '
                            f'were derived from it yielded {got}')
        if sorted(parent) != sel:
            raise Violation('parent-changed-by-derivation|' + pk, f'{case}\nnext pass is not a permutation')
        return 1 if 0 < j < len(sel) else 0
    if got != sel:
        raise Violation('inflight-iteration-disturbed|' + pk,
                        f'{case}\nthe iteration over the selection {sel} that was in flight while {case["derive"]} '
                        f'were derived from it yielded {got}')
    again = list(parent)
    if again != sel:
        raise Violation('parent-changed-by-derivation|' + pk, f'{case}\nthe selection {sel} now iterates as {again}')
    for d, ds in zip(case['derive'], derived):
        out = list(ds)
        mult = 2 if d == 'tile_shuffle' else 1
        if sorted(out) != sorted(sel * mult):
            raise Violation(f'not-a-permutation|derived-{d}', f'{case}\nsecond pass over derived {d}: {out}')
    return 1 if 0 < j < len(sel) else 0


def check_choice_large(case):
    """Sampling without replacement of a small sample from a long dataset, many seeds over ONE dataset object."""
    import lazy_dataset
    n, size = case['n'], case['size']
    base = lazy_dataset.new(list(range(n)))
    for sd in range(case['seed0'], case['seed0'] + case['seeds']):
        out = list(base.random_choice(size, replace=False, rng_state=np.random.RandomState(sd)))
        if len(out) != size or len(set(out)) != size or not (0 <= min(out) and max(out) < n):
            dup = sorted(x for x in set(out) if out.count(x) > 1)
            raise Violation('sample-not-distinct|choice', f'{case}\nseed {sd}: {len(out)} examples, '
                                                          f'{len(set(out))} distinct; drawn twice: {dup[:5]}')
    return 1


def check(case):
    if case['stage'] == 'inflight':
        try:
            return check_inflight(case)
        except Violation:
            raise
        except Exception as e:
            raise Violation('inflight-raised|' + '+'.join(case['derive']),
                            f'{case}\nderiving / iterating a shuffled dataset raised {type(e).__name__}: {str(e)[:300]}')
    if case['stage'] == 'choice_large':
        return check_choice_large(case)
    stage, n, buf, sd = case['stage'], case['n'], case.get('buffer', 1), case['seed']
    extra = case.get('extra', 1)
    word, k = case.get('word', []), case.get('iters', 1)
    if stage == 'choice' and extra > n:
        # more examples than there are cannot be sampled without replacement: must be refused
        try:
            ds, _ = build(stage, n, buf, sd, extra)
            got = list(ds)
        except Exception:
            return 0
        raise Violation('oversampling-accepted|choice', f'{case}\nrandom_choice({extra}, replace=False) of {n} '
                                                        f'examples returned {got}')
    NONE_AT[0] = case.get('none_at') if stage in ('shuffle_once', 'reshuffle', 'local', 'local_copy', 'reshuffle_catch',
                                                  'reshuffle_apply', 'reshuffle_copy', 'tile_shuffle') else None
    try:
        ds, out_len = build(stage, n, buf, sd, extra)
    except Exception as e:
        # every generated configuration is valid (the unchanged library builds all of them): refusing one is a
        # failure of the shuffling stage, not of the harness
        raise Violation(f'build-raised|{stage}', f'{case}\nbuilding the shuffled dataset raised '
                                                 f'{type(e).__name__}: {str(e)[:300]}')
    finally:
        none_at, NONE_AT[0] = NONE_AT[0], None
    desc = f'{case}'
    if case.get('compose'):
        comp = case['compose']
        if comp in ('zip_copy', 'intersperse_copy', 'key_zip_copy', 'concat_copy'):
            # copy() of a composition that lists ONE dataset object several times: the copy consists of independent
            # copies (that is what ZipDataset.copy & co. do), so whatever the shared original does, every component
            # of the COPY is a permutation
            if comp == 'zip_copy':
                pairs = list(ds.zip(ds).copy())
                comps = [[a for a, _ in pairs], [b for _, b in pairs]]
            elif comp == 'intersperse_copy':
                allv = list(ds.intersperse(ds).map(lambda x: x).copy())
                comps = [sorted(allv)[0::2], sorted(allv)[1::2]]
            else:
                allv = list(ds.concatenate(ds).copy())
                comps = [allv[:n], allv[n:]]
            for ci, c_ in enumerate(comps):
                c_ = [none_at if x is None else x for x in c_]
                if sorted(c_) != list(range(n)):
                    raise Violation(f'not-a-permutation|{stage}+{comp}',
                                    f'{desc}\ncomponent {ci} of the copied composition yielded {c_}; input 0..{n - 1}')
            return 1
        if comp == 'zip':
            pairs = list(ds.zip(ds))
            outs = [[a for a, _ in pairs], [b for _, b in pairs]]
        else:
            allv = list(ds.intersperse(ds))
            outs = None
            if sorted(allv) != sorted(list(range(n)) * 2):
                sig = 'overlapped-reshuffle-iterator|intersperse' if stage in BARE_RESHUFFLE else f'not-a-permutation|{stage}+intersperse'
                raise Violation(sig, f'{desc}\nself-intersperse yielded {allv}')
            return 1
        victim = [stage in BARE_RESHUFFLE, False]
        alternations = 2
    else:
        outs, victim, alternations = run_word(ds, word, k, case.get('idle_at'))
    if none_at is not None:
        outs = [[none_at if x is None else x for x in out] for out in outs]  # None stands for its position
    deferred = None
    for i, out in enumerate(outs):
        if stage == 'choice':
            if len(out) != extra or len(set(out)) != len(out) or not set(out) <= set(range(n)):
                raise Violation('sample-not-distinct|choice', f'{desc}\niterator {i} yielded {out}')
            continue
        want = sorted(list(range(n)) * (extra if stage == 'tile_shuffle' else 1))
        if sorted(out) != want:
            if stage in BARE_RESHUFFLE and victim[i]:
                # known open finding K1: reported after the other iterators of this case have been judged
                deferred = deferred or Violation(
                    'overlapped-reshuffle-iterator|reshuffle',
                    f'{desc}\niterator {i} (overlapped by a later-started iterator) yielded {out}')
                continue
            raise Violation(f'not-a-permutation|{stage}', f'{desc}\niterator {i} yielded {out}; input 0..{n - 1}')
        if stage == 'tile_shuffle':
            for r in range(extra):
                blk = out[r * n:(r + 1) * n]
                if sorted(blk) != list(range(n)):
                    raise Violation('tile-block-not-a-permutation|tile_shuffle', f'{desc}\nblock {r}: {blk}')
        if stage in ('local', 'local_copy', 'local_items'):
            for pos, src in enumerate(out):
                if src - pos > buf - 1:
                    raise Violation(f'displacement|{stage}',
                                    f'{desc}\nexample {src} emitted at position {pos}: {src - pos} positions early, '
                                    f'buffer_size {buf}; output {out}')
    if deferred is not None:
        raise deferred
    return alternations


def nontrivial(case, alternations):
    if case['stage'] in ('inflight', 'choice_large'):
        return bool(alternations)
    return (case.get('iters', 1) >= 2 and alternations >= 1) or \
        (case['stage'] in ('local', 'local_copy', 'local_items') and case.get('buffer', 1) < case['n'])


def replay(case):
    check(case)


def words(n_iters, calls):
    """All interleavings of `calls` next() calls per iterator (tuples of iterator ids): multiset permutations."""
    out = []

    def rec(prefix, left):
        if not any(left):
            out.append(tuple(prefix))
            return
        for i in range(n_iters):
            if left[i]:
                left[i] -= 1
                prefix.append(i)
                rec(prefix, left)
                prefix.pop()
                left[i] += 1
    rec([], [calls] * n_iters)
    return out


@st.composite
def st_case(draw):
    stage = draw(st.sampled_from(STAGES + ['inflight', 'inflight']))
    n = draw(st.integers(0, 9))
    if stage == 'inflight':
        return {'stage': 'inflight', 'n': n, 'seed': draw(st.integers(0, 10000)), 'j': draw(st.integers(0, n)),
                'parent': draw(st.sampled_from(['npsel', 'npsel', 'shuffle_once', 'shard', 'slice', 'reshuffle',
                                                'reshuffle'])),
                'derive': draw(st.lists(st.sampled_from(['shuffle_once', 'tile_shuffle', 'reshuffle', 'choice', 'copy',
                                                         'copy_frozen']),
                                        min_size=1, max_size=3))}
    case = {'stage': stage, 'n': n, 'seed': draw(st.integers(0, 10000))}
    if stage in ('local', 'local_copy', 'local_items'):
        case['buffer'] = draw(st.integers(1, n + 1))
    if stage == 'tile_shuffle':
        case['extra'] = draw(st.integers(1, 3))
    if stage == 'choice':
        case['extra'] = draw(st.integers(0, n + 2))
        if n == 0:
            case['stage'] = 'shuffle_once'
    if case['stage'] in ('reshuffle', 'shuffle_once', 'local') and n >= 1 and \
            draw(st.integers(0, 4)) == 0:
        case['compose'] = draw(st.sampled_from(['zip', 'intersperse', 'zip_copy', 'intersperse_copy', 'concat_copy']))
        return case
    if n and draw(st.integers(0, 3)) == 0:
        case['none_at'] = draw(st.integers(0, n - 1))  # one example is None (a legitimate example)
    if n >= 2 and draw(st.integers(0, 3)) == 0:
        case['idle_at'] = draw(st.integers(1, n))  # after that many next() calls an iterator is created and left alone
    k = draw(st.integers(1, 3))
    case['iters'] = k
    case['word'] = draw(st.lists(st.integers(0, k - 1), min_size=0, max_size=3 * (n + 1)))
    return case


def run_shard(tier, idx, nshards, rec, known):
    out = Outcome()

    def one(case):
        try:
            alt = check(case)
        except Violation as v:
            if known.match(v.sig):
                rec.known_hits[v.sig.split('|')[0]] += 1
                rec.case(case, False, ['known-finding-hit'])
                return True
            out.violation = (case, v.sig, v.detail)
            return False
        rec.case(case, nontrivial(case, alt), ['stage:' + case['stage'], f'iters:{case.get("iters", 1)}',
                                               'enumerated', f'n:{case["n"]}'], size=case['n'])
        return True

    nmax2 = 3 if tier == 'quick' else 5
    nmax3 = 2 if tier == 'quick' else 3
    k = 0
    for stage in ['shuffle_once', 'reshuffle', 'local', 'local_copy', 'reshuffle_catch', 'reshuffle_apply',
                  'reshuffle_copy', 'reshuffle_prefetch', 'reshuffle_prefetch_thread1', 'reshuffle_and_copies',
                  'local_items', 'reshuffle_items', 'reshuffle_filter_frozen', 'reshuffle_batch_frozen',
                  'reshuffle_local_frozen']:
        for n_iters, nmax in ((1, 5), (2, nmax2), (3, nmax3)):
            for n in range(0, nmax + 1):
                bufs = range(1, n + 2) if stage.startswith('local') else [1]
                if stage.startswith('reshuffle_prefetch') and (n_iters == 3 or n > 3):
                    continue  # real threads: keep the enumerated part small
                for wd in words(n_iters, n + 1) if n_iters > 1 else [()]:
                    k += 1
                    if k % nshards != idx:
                        continue
                    for buf in bufs:
                        for sd in (0, 1, 2):
                            case = {'stage': stage, 'n': n, 'buffer': buf, 'seed': sd, 'iters': n_iters,
                                    'word': list(wd)}
                            if not one(case):
                                return [out]
    if idx == 0:
        for stage in ('reshuffle', 'reshuffle_copy', 'reshuffle_items', 'local', 'shuffle_once', 'reshuffle_catch'):
            for n in (2, 3, 4):
                for idle_at in range(1, n + 1):
                    for sd in (0, 1, 2, 3):
                        case = {'stage': stage, 'n': n, 'buffer': 2, 'seed': sd, 'iters': 1, 'word': [],
                                'idle_at': idle_at}
                        if not one(case):
                            return [out]
        for stage in ('reshuffle', 'shuffle_once', 'local', 'reshuffle_items', 'reshuffle_catch'):
            for n in (300, 33000, 70000):
                if stage in ('reshuffle_items', 'reshuffle_catch') and n > 33000:
                    continue
                case = {'stage': stage, 'n': n, 'buffer': 50, 'seed': 7, 'iters': 1, 'word': []}
                if not one(case):
                    return [out]
    if idx == 2 % nshards:
        for stage in ('reshuffle', 'shuffle_once', 'local'):
            for comp in ('zip_copy', 'intersperse_copy', 'concat_copy'):
                for n in (1, 2, 3, 4):
                    for sd in range(6):
                        case = {'stage': stage, 'n': n, 'buffer': 2, 'seed': sd, 'compose': comp}
                        if not one(case):
                            return [out]
    if idx == 1 % nshards:
        # a small sample without replacement from a long dataset (sampling shortcuts only pay off - and only go
        # wrong - there): 40 / 400 seeds over one object
        for seed0 in range(0, 40 if tier == 'quick' else 400, 20):
            case = {'stage': 'choice_large', 'n': 400000, 'size': 3999, 'seed0': seed0, 'seeds': 20}
            if not one(case):
                return [out]
    o2 = drive(lambda c: rec.case(c, nontrivial(c, check(c)), ['stage:' + c['stage'], 'random',
                                                                'compose:' + str(c.get('compose'))], size=c['n']),
               st_case(), N_RANDOM[tier], rec, known, seed() * 1000 + idx)
    return [out, o2]
