"""Shared driver for the program-based checks (C01, C02, C03, ...): generate program -> build -> observe vs model."""
import types
import warnings

from . import build as B
from . import gen, observe, progs
from .common import Violation, drive, seed
from .refmodel import Invalid, ev


def setup_process():
    """Determinism of the environment the library looks at."""
    warnings.simplefilter('ignore')
    import logging
    logging.getLogger('lazy_dataset').setLevel(logging.CRITICAL)  # catch(warn=True) logs every dropped example
    import psutil
    gib = 1024 ** 3
    psutil.virtual_memory = lambda: types.SimpleNamespace(total=64 * gib, available=48 * gib)


def subnodes(node, path='r'):
    """(path, node) pairs in the path scheme of build()."""
    yield path, node
    if 'ins' in node:
        for i, c in enumerate(node['ins']):
            yield from subnodes(c, f'{path}.{i}')
    elif 'in' in node:
        yield from subnodes(node['in'], path + '.0')


def build_checked(node):
    """Build the real pipeline; a failing construction of a program the model accepts is a violation."""
    env = B.Env()
    try:
        ds = B.build(node, env)
    except observe.PASS_THROUGH:
        raise
    except BaseException as e:
        # find the innermost stage whose construction fails
        culprit = node
        for path, sub in sorted(subnodes(node), key=lambda t: -len(t[0])):
            try:
                B.build(sub, B.Env())
            except observe.PASS_THROUGH:
                raise
            except BaseException:
                culprit = sub
                break
        raise Violation(f'construction-raised|{culprit["op"]}',
                        f'building {progs.show(culprit)} raised {observe.describe_exc(e)}')
    # looking at a pipeline (what an interactive session or a logger does) is not a use of it: whatever repr() and
    # str() do, every observation afterwards must be what it would have been without them
    for look in (repr, str):
        try:
            look(ds)
        except observe.PASS_THROUGH:
            raise
        except BaseException:
            pass
    return ds, env


def classes_of(node, m):
    ops = progs.ops(node)
    cls = set('op:' + o for o in ops)
    cls.add(f'depth:{min(progs.depth(node), 8)}')
    cls.add(f'len:{m.n if m.n < 3 else "3+"}')
    if m.has_raise:
        cls.add('has-raise')
    if m.unordered:
        cls.add('unordered')
    if m.taint:
        cls.add('dup-keys')
    if m.keys is not None and m.cap_items != 'no':
        cls.add('keyed-result')
    for n in progs.walk(node):
        if n['op'] == 'slice':
            cls.add('slice:' + n['form']['k'] + (':' + n['form'].get('as', '') if n['form']['k'] == 'ilist' else ''))
            f = n['form']
            if f['k'] == 'ilist' and (any(i < 0 for i in f['idx']) or len(set(f['idx'])) < len(f['idx'])):
                cls.add('slice:neg-or-repeat')
            if f['k'] == 'slice' and any(isinstance(x, int) and x < 0 for x in (f['a'], f['b'], f['c'])):
                cls.add('slice:negative-bound-or-step')
        if n['op'] == 'list':
            cls.add('src:' + n['mode'])
            if n['n'] <= 1:
                cls.add('src:len<=1')
        if n['op'] == 'dict' and len(n['keys']) <= 1:
            cls.add('src:len<=1')
        if n['op'] == 'prefetch':
            cls.add('prefetch:multi' if n['workers'] > 1 else 'prefetch:single')
    return cls


def diagnose(node, check_node):
    """Deepest sub-program on which `check_node` already fails (for the signature); returns (subnode, Violation)."""
    found = None
    for path, sub in sorted(subnodes(node), key=lambda t: -len(t[0])):
        try:
            check_node(sub)
        except Violation as v:
            return sub, v
        except Exception:
            continue
    return found


def run(check_program, rec, known, profile, n_examples, hseed, max_stages=6, shrink=True, ctx_kw=None):
    setup_process()
    allowed = gen.PROFILES[profile] if isinstance(profile, str) else profile

    def strat():
        return gen.st_program(gen.Ctx(**(ctx_kw or {})), allowed, max_stages=max_stages)

    from hypothesis import strategies as st

    @st.composite
    def s(draw):
        return draw(gen.st_program(gen.Ctx(**(ctx_kw or {})), allowed, max_stages=max_stages))

    return drive(check_program, s(), n_examples, rec, known, hseed, shrink=shrink)


def run_enum(check_program, rec, known, depth, idx, nshards):
    """Bounded-exhaustive part: every chain of up to `depth` stage templates over every small source."""
    from . import enumprogs
    from .common import Outcome
    setup_process()
    out = Outcome()
    n = 0
    import itertools
    for i, (names, node) in enumerate(itertools.chain(enumprogs.enum_structural(), enumprogs.enum_programs(depth))):
        if i % nshards != idx:
            continue
        try:
            check_program(node)
        except Violation as v:
            if known is not None and known.match(v.sig):
                rec.known_hits[v.sig.split('|')[0]] += 1
                continue
            out.violation = ({'ast': node, 'program': progs.show(node)}, v.sig, v.detail)
            return out
        n += 1
    rec.extra['enumerated_programs'] = rec.extra.get('enumerated_programs', 0) + n
    rec.extra['enumeration_depth'] = depth
    return out
