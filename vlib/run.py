"""python -m vlib.run <ID> --tier quick|thorough [--replay path]

Exit 0: property held on everything explored. Exit 1: `VIOLATION property=<id> replay=<path>`. Exit 2: harness error /
inconclusive (never a verdict).
"""
import argparse
import importlib
import json
import os
import subprocess
import sys
import tempfile
import time
import traceback
from pathlib import Path

from . import common
from .common import EXIT_HARNESS, EXIT_OK, EXIT_VIOLATION, Outcome, Recorder, KnownFindings, Violation


def load(pid):
    return importlib.import_module(f'vlib.checks.{pid.lower()}')


def do_replay(mod, path):
    payload = json.loads(Path(path).read_text())
    case = payload['case']
    try:
        mod.replay(case)
    except Violation as v:
        known = KnownFindings(mod.PID)
        if known.match(v.sig):
            known.report()
            print(f'[{mod.PID}] replay {path}: reproduces a listed open finding ({v.sig})')
            return EXIT_OK
        print(f'  signature: {v.sig}')
        print('  ' + v.detail[:3000].replace('\n', '\n  '))
        print(f'VIOLATION property={mod.PID} replay={path}')
        return EXIT_VIOLATION
    print(f'[{mod.PID}] replay {path}: property holds on this case')
    return EXIT_OK


def regress_cases(pid):
    d = common.VERIF / 'replays' / 'regress' / pid
    if os.environ.get('VERIF_NO_REGRESS') == '1':  # sensitivity experiments: measure the generated search alone
        return []
    return sorted(d.glob('*.json')) if d.is_dir() else []


def run_shard_inproc(mod, tier, idx, n):
    import gc
    gc.disable()  # collections happen at safe points only (Recorder.case / drive), see common.drive
    rec = Recorder(mod.PID)
    known = KnownFindings(mod.PID)
    outcomes = mod.run_shard(tier, idx, n, rec, known)
    return rec, known, outcomes


def main(argv=None):
    ap = argparse.ArgumentParser()
    ap.add_argument('pid')
    ap.add_argument('--tier', default=os.environ.get('VERIF_TIER', 'quick'), choices=['quick', 'thorough'])
    ap.add_argument('--replay')
    ap.add_argument('--shard', help='internal: i/n')
    ap.add_argument('--shard-out', help='internal')
    args = ap.parse_args(argv)

    common.normalise_env_or_reexec()
    common.use_repo()
    pid = args.pid.upper()
    mod = load(pid)

    if args.replay:
        return do_replay(mod, args.replay)

    if args.shard:
        idx, n = map(int, args.shard.split('/'))
        try:
            rec, known, outcomes = run_shard_inproc(mod, args.tier, idx, n)
            payload = {
                'rec': rec.dump(),
                'known': dict(known.hits),
                'outcomes': [{'violation': o.violation, 'harness_error': o.harness_error} for o in outcomes],
            }
        except BaseException:
            payload = {'rec': Recorder(pid).dump(), 'known': {},
                       'outcomes': [{'violation': None, 'harness_error': [None, traceback.format_exc()]}]}
        Path(args.shard_out).write_text(json.dumps(payload, default=repr))
        # the verdict is on disk: do not let worker threads leaked by the code under test block interpreter shutdown
        sys.stdout.flush()
        sys.stderr.flush()
        os._exit(EXIT_OK)

    t0 = time.time()
    rec = Recorder(pid)
    known = KnownFindings(pid)
    outcomes = []

    # 1. seconds-long regression tier: saved shrunk failures of earlier (repaired or seeded) breakages
    n_reg = 0
    for path in regress_cases(pid):
        payload = json.loads(path.read_text())
        n_reg += 1
        try:
            mod.replay(payload['case'])
        except Violation as v:
            if known.match(v.sig):
                continue
            o = Outcome()
            o.violation = (payload['case'], v.sig, f'(regression case {path.name}) ' + v.detail)
            outcomes.append(o)
        except Exception:
            o = Outcome()
            o.harness_error = (payload['case'], traceback.format_exc())
            outcomes.append(o)
    rec.extra['regression_cases_replayed'] = n_reg

    # 2. the generated search
    plan = mod.plan(args.tier)
    n = plan.get('shards', 1)
    if not any(o.violation for o in outcomes):
        if n == 1:
            r, k, outs = run_shard_inproc(mod, args.tier, 0, 1)
            rec.merge(r.dump())
            known.hits.update(k.hits)
            outcomes += outs
        else:
            with tempfile.TemporaryDirectory(prefix=f'verif_{pid}_') as td:
                procs = []
                for i in range(n):
                    out = Path(td) / f'{i}.json'
                    cmd = [sys.executable, '-m', 'vlib.run', pid, '--tier', args.tier, '--shard', f'{i}/{n}',
                           '--shard-out', str(out)]
                    procs.append((i, out, subprocess.Popen(cmd, cwd=str(common.VERIF))))
                budget = time.time() + (1800 if args.tier == 'quick' else 4 * 3600)
                for i, out, p in procs:
                    try:
                        p.wait(timeout=max(1, budget - time.time()))
                    except subprocess.TimeoutExpired:
                        p.kill()
                        p.wait()
                        o = Outcome()
                        o.harness_error = (None, f'shard {i} exceeded the wall-clock budget and was killed '
                                                 f'(inconclusive, not a verdict)')
                        outcomes.append(o)
                        continue
                    if not out.exists():
                        o = Outcome()
                        o.harness_error = (None, f'shard {i} died with exit status {p.returncode}')
                        outcomes.append(o)
                        continue
                    payload = json.loads(out.read_text())
                    rec.merge(payload['rec'])
                    known.hits.update(payload['known'])
                    for od in payload['outcomes']:
                        o = Outcome()
                        o.violation = tuple(od['violation']) if od['violation'] else None
                        o.harness_error = tuple(od['harness_error']) if od['harness_error'] else None
                        outcomes.append(o)

    extra = dict(getattr(mod, 'EXTRA', {}) or {})
    return common.finish(pid, args.tier, rec, known, outcomes, mod.RULE, mod.ASSUMPTIONS, t0,
                         level=getattr(mod, 'LEVEL', 'exploration'),
                         exhaustive=plan.get('exhaustive'), extra=extra)


if __name__ == '__main__':
    try:
        code = main()
    except SystemExit:
        raise
    except BaseException:
        print('HARNESS-ERROR (not a verdict):')
        traceback.print_exc()
        code = EXIT_HARNESS
    sys.exit(code)
