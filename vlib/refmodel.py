"""Eager reference interpreter for pipeline programs (plain list operations) plus the capability table.

Capabilities are three-valued: 'req' (the documented behaviour must be delivered), 'opt' (model answer OR the documented
loud refusal; never a different value), 'no' (must refuse, nothing may be returned).
"""
from fractions import Fraction

import numpy as np

from . import progs
from .progs import Raise

ORDER = {'no': 0, 'opt': 1, 'req': 2}
# C13 only needs valid programs, not predictable values: it switches this off to allow order-sensitive stages
# (batch, concatenate, zip, tile, copy(freeze=True)) above per-epoch random stages
STRICT_UNORDERED = [True]


def cmin(*caps):
    return min(caps, key=lambda c: ORDER[c])


class Invalid(Exception):
    """The program violates a documented precondition (generator bug if it escapes)."""


class Model:
    __slots__ = ('vals', 'keys', 'cap_keys', 'cap_items', 'cap_str', 'indexable', 'sized', 'unordered', 'taint',
                 'int_taint', '_fidx', 'iter_taint')

    def __init__(self, vals, keys=None, cap_keys='no', cap_items='no', cap_str='no', indexable=False, sized=False,
                 unordered=False, taint=False, int_taint=False):
        self.vals = vals
        self.keys = keys
        self.cap_keys = cap_keys
        self.cap_items = cap_items
        self.cap_str = cap_str
        self.indexable = indexable
        self.sized = sized
        self.unordered = unordered
        self.taint = taint  # duplicate keys somewhere below: key operations may refuse with "Keys are not unique"
        self.int_taint = int_taint  # integer indexing goes through keys() of a tainted node (ItemsDataset)
        self._fidx = None
        # plain iteration goes through keys() of a node with duplicate keys (items() above a tainted slice / cache):
        # the documented "Keys are not unique" refusal at the start of the iteration is then accepted
        self.iter_taint = False

    @property
    def fidx(self):
        """indexable after copy(freeze=True) (what multi-worker prefetch needs)"""
        return self.indexable if self._fidx is None else self._fidx

    @property
    def has_raise(self):
        return any(isinstance(v, Raise) for v in self.vals)

    @property
    def n(self):
        return len(self.vals)

    def clone(self, **kw):
        m = Model(self.vals, self.keys, self.cap_keys, self.cap_items, self.cap_str, self.indexable, self.sized,
                  self.unordered, self.taint, self.int_taint)
        m._fidx = self._fidx
        m.iter_taint = self.iter_taint
        for k, v in kw.items():
            setattr(m, k, v)
        return m

    def key_lookup(self):
        """key -> value for the keys this dataset contains (first occurrence)."""
        out = {}
        if self.keys is not None:
            for k, v in zip(self.keys, self.vals):
                out.setdefault(k, v)
        return out


def lift(f, v):
    return v if isinstance(v, Raise) else f(v)


def first_raise(vs):
    for v in vs:
        if isinstance(v, Raise):
            return v
    return None


# ---------------------------------------------------------------------------------------------------------------------
# slice forms


def form_indices(form, n, keys=None):
    """Positions (0 <= p < n) selected by a slice form, with plain Python arithmetic."""
    k = form['k']
    if k == 'slice':
        return list(range(n))[slice(form['a'], form['b'], form['c'])]
    if k == 'ilist':
        out = []
        for i in form['idx']:
            if not -n <= i < n:
                raise Invalid(f'index {i} out of range for length {n}')
            out.append(i % n if n else i)
        return out
    if k == 'mask':
        if len(form['bits']) != n:
            raise Invalid('mask length')
        return [i for i, b in enumerate(form['bits']) if b]
    if k == 'keys':
        if keys is None:
            raise Invalid('key selection on a dataset without keys')
        pos = {kk: i for i, kk in enumerate(keys)}
        if len(pos) != len(keys):
            raise Invalid('key selection over duplicate keys')
        if not form['keys']:
            raise Invalid('empty key list is an empty index list')
        try:
            return [pos[kk] for kk in form['keys']]
        except KeyError as e:
            raise Invalid(f'key {e} not present')
    raise ValueError(k)


def intersperse_order(lengths):
    order = sorted(
        (Fraction(j + 1, n), d, j)
        for d, n in enumerate(lengths) for j in range(n)
    )
    return [(d, j) for _, d, j in order]


def split_bounds(n, k):
    """Sizes ceil for the first n mod k shards, floor after (np.array_split contract restated)."""
    q, r = divmod(n, k)
    sizes = [q + 1] * r + [q] * (k - r)
    out, s = [], 0
    for z in sizes:
        out.append((s, s + z))
        s += z
    return out


def select(m, idx):
    """Model of `ds[index selection]` (SliceDataset)."""
    if not m.indexable:
        raise Invalid('slice of a non-indexable dataset')
    return Model(
        [m.vals[i] for i in idx],
        keys=None if m.keys is None else [m.keys[i] for i in idx],
        cap_keys=m.cap_keys,
        cap_items=m.cap_keys,  # SliceDataset.__iter__(with_key) asks its input for keys()
        cap_str=cmin(m.cap_keys, m.cap_str),
        indexable=True, sized=True, unordered=False, taint=m.taint, int_taint=m.int_taint,
    )


def combine_keys(models, vals_order):
    """keys / caps / taint of concatenate and intersperse. vals_order: list of (dataset idx, example idx)."""
    keyless_empty = [mm for mm in models if mm.keys is None and mm.n == 0]
    if all(mm.keys is not None or mm.n == 0 for mm in models):
        keys = [models[d].keys[j] for d, j in vals_order]
    else:
        keys = None
    taint = any(mm.taint for mm in models)
    dup = keys is not None and len(set(keys)) != len(keys)
    cap_keys = cmin(*[mm.cap_keys for mm in models])
    cap_items = cmin(*[mm.cap_items for mm in models])
    cap_str = cmin(*[cmin(mm.cap_keys, mm.cap_str) for mm in models])
    if keyless_empty and keys is not None:
        # an EMPTY part without keys contributes no example: whether key operations refuse depends on whether the
        # part is ever reached (e.g. an intersperse above never asks it) - the answer, if given, must be right
        others = [mm for mm in models if not (mm.keys is None and mm.n == 0)]
        if others:
            cap_keys = cmin('opt', *[mm.cap_keys for mm in others])
            cap_items = cmin('opt', *[mm.cap_items for mm in others])
            cap_str = cmin('opt', *[cmin(mm.cap_keys, mm.cap_str) for mm in others])
    if dup:
        taint = True
        cap_keys = cmin(cap_keys, 'opt')
        cap_str = cmin(cap_str, 'opt')
    return keys, cap_keys, cap_items, cap_str, taint


def ev(node):
    """Evaluate a program node to its Model. Raises Invalid on precondition violations."""
    op = node['op']
    if op == 'list':
        if node['mode'] == 'wu' and node['n'] == 0:
            raise Invalid('wu storage needs at least one example')
        _, vals = progs.src_values(node)
        return Model(vals, indexable=True, sized=True)
    if op == 'dict':
        keys, vals = progs.src_values(node)
        if len(set(keys)) != len(keys):
            raise Invalid('dict source with duplicate keys')
        return Model(vals, keys=keys, cap_keys='req', cap_items='req', cap_str='req', indexable=True, sized=True)

    if op in progs.NARY:
        ms = [ev(c) for c in node['ins']]
        out = ev_nary(op, node, ms)
        if any(mm.iter_taint for mm in ms):
            out = out.clone(iter_taint=True)
        return out

    m = ev(node['in'])
    if m.iter_taint and (op in ('sort', 'shuffle_once_eager') or (op == 'filter' and not node['lazy'])
                         or (op == 'cache' and not node['lazy'])):
        raise Invalid('eager op above an iteration that may refuse (duplicate keys)')
    out = ev_unary(op, node, m)
    by_index = (op in ('slice', 'shuffle_once', 'sort', 'shard', 'catch', 'reshuffle')
                or (op == 'apply' and node['fn'] == 'shuffle')
                or (op == 'cache' and node['lazy']) or (op == 'filter' and not node['lazy'])
                or (op == 'prefetch' and (node['workers'] > 1 or node.get('catch', False) is not False)))
    it = m.iter_taint or (op == 'items' and m.cap_items == 'opt') or (by_index and m.int_taint)
    if it != out.iter_taint:
        out = out.clone(iter_taint=it)
    return out


def ev_nary(op, node, ms):
    if op == 'concat':
        order = [(d, j) for d, mm in enumerate(ms) for j in range(mm.n)]
        vals = [ms[d].vals[j] for d, j in order]
        keys, ck, ci, cs, taint = combine_keys(ms, order)
        if STRICT_UNORDERED[0] and any(mm.unordered for mm in ms):
            raise Invalid('concat over unordered (not generated)')
        return Model(vals, keys, ck, ci, cs, indexable=all(mm.indexable for mm in ms),
                     sized=all(mm.sized for mm in ms), taint=taint, int_taint=any(mm.int_taint for mm in ms),
                     unordered=any(mm.unordered for mm in ms))
    if op == 'intersperse':
        if not all(mm.sized and mm.n > 0 for mm in ms):
            raise Invalid('intersperse needs sized, non-empty inputs')
        if STRICT_UNORDERED[0] and any(mm.unordered for mm in ms):
            raise Invalid('intersperse over unordered (not generated)')
        order = intersperse_order([mm.n for mm in ms])
        vals = [ms[d].vals[j] for d, j in order]
        keys, ck, ci, cs, taint = combine_keys(ms, order)
        return Model(vals, keys, ck, ci, cs, indexable=all(mm.indexable for mm in ms), sized=True, taint=taint,
                     int_taint=any(mm.int_taint for mm in ms), unordered=any(mm.unordered for mm in ms))
    if op == 'zip':
        if not all(mm.sized for mm in ms) or len({mm.n for mm in ms}) != 1:
            raise Invalid('zip needs sized inputs of equal length')
        if STRICT_UNORDERED[0] and any(mm.unordered for mm in ms):
            raise Invalid('zip over unordered (not generated)')
        vals = []
        for tup in zip(*[mm.vals for mm in ms]):
            r = first_raise(tup)
            vals.append(r if r is not None else tuple(tup))
        return Model(vals, indexable=all(mm.indexable for mm in ms), sized=True,
                     int_taint=any(mm.int_taint for mm in ms), unordered=any(mm.unordered for mm in ms))
    if op == 'key_zip':
        if len(ms) < 2:
            raise Invalid('key_zip needs two inputs')
        for mm in ms:
            if mm.cap_keys != 'req' or mm.cap_str != 'req' or mm.taint or mm.keys is None:
                raise Invalid('key_zip needs available keys')
        # repeated keys (an over-sampling index selection) are fine: every input is asked by key, the first input
        # dictates order and multiplicity
        if len({frozenset(mm.keys) for mm in ms}) != 1:
            raise Invalid('key_zip needs equal key sets')
        keys = list(ms[0].keys)
        lookups = [mm.key_lookup() for mm in ms]
        vals = []
        for k in keys:
            tup = [lk[k] for lk in lookups]
            r = first_raise(tup)
            vals.append(r if r is not None else tuple(tup))
        return Model(vals, keys, 'req', 'req', 'req', indexable=all(mm.indexable for mm in ms), sized=ms[0].sized)
    raise ValueError(op)


def ev_unary(op, node, m):
    if op == 'map':
        i = node['fn']
        return m.clone(vals=[lift(lambda v: progs.f_wrap(i, v), v) for v in m.vals])
    if op == 'parmap':
        i = node['fn']
        return m.clone(vals=[lift(lambda v: progs.f_wrap(i, v), v) for v in m.vals])
    if op in ('boom', 'boomset', 'predraise') and m.unordered:
        raise Invalid('raising elements in a random order have no sequential reference (not generated)')
    if op == 'boom':
        return m.clone(vals=[
            lift(lambda v: progs.boom_model(node['m'], node['r'], node['exc'], node['fn'], v), v) for v in m.vals])
    if op == 'spy':
        return m
    if op == 'nonemap':
        return m.clone(vals=[lift(lambda v: progs.f_none(node['m'], node['r'], v), v) for v in m.vals])
    if op == 'mapc':
        def comp(v, fns=tuple(node['fns'])):
            for i in fns:
                v = progs.f_wrap(i, v)
            return v
        return m.clone(vals=[lift(comp, v) for v in m.vals])
    if op == 'filter_in':
        allowed = set(node['reprs'])
        keep = [isinstance(v, Raise) or repr(v) in allowed for v in m.vals]
        vals = [v for v, k in zip(m.vals, keep) if k]
        keys = None if m.keys is None else [kk for kk, k in zip(m.keys, keep) if k]
        return Model(vals, keys, 'no', m.cap_items, m.cap_str, indexable=False, sized=False,
                     unordered=m.unordered, taint=m.taint)
    if op == 'boomset':
        return m.clone(vals=[lift(lambda v: progs.boomset_model(node['fail'], node['fn'], v, node.get('noargs', False)), v)
                             for v in m.vals])
    if op == 'predraise':
        return m.clone(vals=[lift(lambda v: progs.predraise_model(node['m'], node['r'], v), v) for v in m.vals])
    if op == 'frag':
        return m.clone(vals=[lift(progs.f_frag, v) for v in m.vals])
    if op == 'batch_map':
        i = node['fn']
        for v in m.vals:
            if not isinstance(v, (Raise, list)):
                raise Invalid('batch_map over non-batches')
        return m.clone(vals=[lift(lambda b: [progs.f_wrap(i, x) for x in b], v) for v in m.vals])
    if op == 'filter':
        mm, r = node['m'], node['r']
        keep = [isinstance(v, Raise) or progs.f_pred(mm, r, v) for v in m.vals]
        if node['lazy']:
            vals = [v for v, k in zip(m.vals, keep) if k]
            keys = None if m.keys is None else [kk for kk, k in zip(m.keys, keep) if k]
            return Model(vals, keys, 'no', m.cap_items, m.cap_str, indexable=False, sized=False,
                         unordered=m.unordered, taint=m.taint)
        if m.has_raise:
            raise Invalid('eager op above a raising element')
        return select(m, [i for i, k in enumerate(keep) if k])
    if op == 'slice':
        idx = form_indices(node['form'], m.n, m.keys)
        if node['form']['k'] == 'keys' and (m.cap_keys != 'req' or m.taint):
            raise Invalid('key selection needs available unique keys')
        return select(m, idx)
    if op == 'shuffle_once':
        if not (m.indexable and m.sized):
            raise Invalid('shuffle needs an indexable dataset')
        perm = np.arange(m.n)
        np.random.RandomState(node['seed']).shuffle(perm)
        return select(m, [int(i) for i in perm])
    if op == 'sort':
        if m.has_raise or not m.indexable:
            raise Invalid('sort needs an indexable dataset without raising elements')
        rev = bool(node['reverse'])
        if node.get('sort_fn') == 'inverting':
            rev = not rev  # the supplied sort function orders the other way round; it decides, not the builtin
        if node['key'] is None:
            if m.cap_keys != 'req' or m.taint or m.keys is None:
                raise Invalid('key-less sort needs keys')
            pos = {k: i for i, k in enumerate(m.keys)}
            return select(m, [pos[k] for k in sorted(m.keys, reverse=rev)])
        if node.get('wrap') is not None:
            kv = [progs.f_key(node['key'], progs.f_wrap(node['wrap'], v)) for v in m.vals]
        else:
            kv = [progs.f_key(node['key'], v) for v in m.vals]
        # the documented recipe: sort (sort value, running index) pairs
        return select(m, sorted(range(m.n), key=lambda i: (kv[i], i), reverse=rev))
    if op == 'shard':
        k, i = node['k'], node['i']
        if not m.indexable or not 1 <= k <= m.n or not 0 <= i < k:
            raise Invalid('shard coordinates')
        a, b = split_bounds(m.n, k)[i]
        return select(m, list(range(a, b)))
    if op == 'batch':
        bs, drop = node['n'], node['drop_last']
        vals = []
        for s in range(0, m.n, bs):
            chunk = m.vals[s:s + bs]
            if len(chunk) < bs and drop:
                break
            r = first_raise(chunk)
            vals.append(r if r is not None else list(chunk))
        if m.has_raise and drop:
            # a raising element in a dropped tail still ends a sequential iteration; keep it simple: not generated
            tail = m.vals[len(vals) * bs:]
            if first_raise(tail) is not None:
                raise Invalid('raising element in a dropped incomplete batch (not generated)')
        if STRICT_UNORDERED[0] and m.unordered:
            raise Invalid('batch over unordered (not generated)')
        return Model(vals, indexable=m.indexable, sized=m.sized, int_taint=m.int_taint, unordered=m.unordered)
    if op == 'unbatch':
        vals = []
        for v in m.vals:
            if isinstance(v, Raise):
                vals.append(v)
            elif isinstance(v, (list, tuple)):
                vals.extend(v)
            else:
                raise Invalid('unbatch over non-batches')
        return Model(vals, indexable=False, sized=False, unordered=m.unordered)
    if op == 'items':
        if m.cap_items == 'no' or m.keys is None:
            raise Invalid('items over a dataset without items')
        vals = [lift(lambda v, k=k: (k, v), v) for k, v in zip(m.keys, m.vals)]
        cap_int_through_keys = m.cap_keys
        return Model(vals, list(m.keys), m.cap_keys, m.cap_items,
                     cmin(m.cap_keys, 'req' if m.indexable else 'no'),
                     indexable=m.indexable, sized=m.sized, unordered=m.unordered, taint=m.taint,
                     int_taint=m.int_taint or m.taint or cap_int_through_keys != 'req')
    if op == 'tile' and node.get('shuffle'):
        # tile(r, shuffle=True): r independent one-time shuffles drawn from the GLOBAL numpy generator, which the
        # builder seeds with node['np_seed'] right before building this stage
        if 'np_seed' not in node or not (m.indexable and m.sized) or m.has_raise:
            raise Invalid('shuffled tile needs a pinned global seed and an indexable input')
        rs = np.random.RandomState(node['np_seed'])
        parts = []
        for _ in range(node['r']):
            perm = np.arange(m.n)
            rs.shuffle(perm)
            parts.append(select(m, [int(i) for i in perm]))
        if node['r'] == 1:
            return parts[0]
        order = [(d, j) for d in range(node['r']) for j in range(m.n)]
        vals = [parts[d].vals[j] for d, j in order]
        keys, ck, ci, cs, taint = combine_keys(parts, order)
        return Model(vals, keys, ck, ci, cs, indexable=True, sized=True, taint=taint, int_taint=m.int_taint)
    if op == 'tile':
        r = node['r']
        if r < 1:
            raise Invalid('tile count')
        if r == 1:
            return m
        if STRICT_UNORDERED[0] and m.unordered:
            raise Invalid('tile over unordered (not generated)')
        order = [(d, j) for d in range(r) for j in range(m.n)]
        ms = [m] * r
        vals = [m.vals[j] for d, j in order]
        keys, ck, ci, cs, taint = combine_keys(ms, order)
        return Model(vals, keys, ck, ci, cs, indexable=m.indexable, sized=m.sized, taint=taint,
                     int_taint=m.int_taint, unordered=m.unordered)
    if op == 'cache':
        if node['lazy']:
            if not m.indexable:
                raise Invalid('lazy cache needs an indexable dataset')
            return Model(m.vals, m.keys, m.cap_keys, m.cap_keys, m.cap_keys, indexable=True, sized=m.sized,
                         taint=m.taint, int_taint=m.int_taint)
        if m.has_raise or m.unordered:
            raise Invalid('eager cache needs an ordered, non-raising dataset')
        if m.cap_items == 'opt' or (m.taint and m.cap_items != 'req'):
            raise Invalid('eager cache over optional items (not generated)')
        if m.cap_items == 'req' and m.keys is not None:
            if len(set(m.keys)) == len(m.keys):
                return Model(m.vals, list(m.keys), 'req', 'req', 'req', indexable=True, sized=True)
            return Model(m.vals, indexable=True, sized=True)
        return Model(m.vals, indexable=True, sized=True)
    if op == 'catch':
        if not (m.fidx and m.sized):
            raise Invalid('catch needs a dataset that is indexable once frozen')
        spec = node['exc']
        if spec == 'Exception' and (m.taint or m.int_taint or m.iter_taint):
            # catch(Exception) would legitimately swallow the "Keys are not unique" refusals of the stages below
            raise Invalid('catch(Exception) above duplicate keys (not generated)')
        keep = [not (isinstance(v, Raise) and v.is_caught_by(spec)) for v in m.vals]
        vals = [v for v, k in zip(m.vals, keep) if k]
        keys = None if m.keys is None else [kk for kk, k in zip(m.keys, keep) if k]
        # a per-epoch reshuffle below is frozen per iteration: its frozen copy is a selection (which has keys())
        cap_items = cmin(m.cap_keys, m.cap_str) if m.indexable else cmin(m.cap_items, m.cap_str)
        return Model(vals, keys, 'no', cap_items, m.cap_str, indexable=False, sized=False,
                     taint=m.taint, unordered=m.unordered)
    if op == 'copy':
        if STRICT_UNORDERED[0] and node['freeze'] and m.unordered:
            # freezing fixes one (unpredictable) order and changes the capabilities; that is C13's subject
            raise Invalid('copy(freeze=True) of a per-epoch random pipeline (not generated here)')
        return m
    if op == 'prefetch':
        w, b, spec = node['workers'], node['buffer'], node.get('catch', False)
        if b < w or w < 1:
            raise Invalid('prefetch buffer >= workers >= 1')
        vals, keys = m.vals, m.keys
        if spec is not False:
            if not (m.indexable and m.sized):
                raise Invalid('prefetch with catch needs an indexable dataset')
            cspec = None if spec is True else spec
            keep = [not (isinstance(v, Raise) and v.is_caught_by(cspec)) for v in m.vals]
            vals = [v for v, k in zip(m.vals, keep) if k]
            keys = None if m.keys is None else [kk for kk, k in zip(m.keys, keep) if k]
        if w == 1:
            cap_items = m.cap_items if spec is False else cmin(m.cap_keys, m.cap_str)
            return Model(vals, keys, 'no', cap_items, 'no', indexable=False, sized=m.sized and spec is False,
                         unordered=m.unordered, taint=m.taint)
        if not (m.fidx and m.sized):
            raise Invalid('multi-worker prefetch needs a dataset that is indexable once frozen')
        return Model(vals, keys, 'no', 'no', 'no', indexable=False, sized=spec is False, unordered=m.unordered,
                     taint=m.taint)
    if op == 'apply':
        if m.has_raise:
            raise Invalid('lazy apply above a raising element (not generated)')
        if node['fn'] == 'map':
            return Model([progs.f_wrap(0, v) for v in m.vals], m.keys, 'no', m.cap_items, 'no', indexable=False,
                         sized=False, unordered=m.unordered, taint=m.taint)
        if node['fn'] == 'shuffle' and not (m.fidx and m.sized):
            raise Invalid('apply(shuffle) needs a dataset that is indexable once frozen')
        return Model(m.vals, m.keys, 'no', cmin(m.cap_items, 'opt'), 'no', indexable=False, sized=False,
                     unordered=True, taint=m.taint)
    if op == 'reshuffle':
        if not (m.indexable and m.sized) or m.has_raise:
            raise Invalid('reshuffle needs an indexable dataset')
        out = Model(m.vals, m.keys, 'no', m.cap_keys, m.cap_str, indexable=False, sized=True, unordered=True,
                    taint=m.taint)
        out._fidx = True
        return out
    if op == 'local_shuffle':
        if m.has_raise:
            raise Invalid('local shuffle above a raising element (not generated)')
        return Model(m.vals, m.keys, 'no', m.cap_items, m.cap_str, indexable=False, sized=m.sized, unordered=True,
                     taint=m.taint)
    raise ValueError(op)
