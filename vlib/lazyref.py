"""A small, obviously demand-driven reference interpreter (generators / point-wise lookups) that logs every user
function application and every source read. Used by C08 to bound what the real pipeline may evaluate."""
import functools

from . import progs
from .refmodel import ev, form_indices, intersperse_order, split_bounds


class LazyRef:
    def __init__(self, lookahead_prefetch=True):
        self.log = []  # (path, kind, arg)
        self.count_only = set()  # paths of stages downstream of a random stage (only counts are comparable)

    # ----------------------------------------------------------------------------------------------- helpers
    def call(self, path, f, x):
        self.log.append((path, 'call', x))
        return f(x)

    def kids(self, node, path):
        if 'ins' in node:
            return [(c, f'{path}.{i}') for i, c in enumerate(node['ins'])]
        return [(node['in'], path + '.0')]

    def fn_of(self, node):
        op = node['op']
        if op in ('map', 'parmap'):
            return functools.partial(progs.f_wrap, node['fn'])
        if op == 'frag':
            return progs.f_frag
        if op == 'filter':
            return functools.partial(progs.f_pred, node['m'], node['r'])
        if op == 'nonemap':
            return functools.partial(progs.f_none, node['m'], node['r'])
        raise ValueError(op)

    # ----------------------------------------------------------------------------------------------- iteration
    def iter(self, node, path='r', with_key=False):
        op = node['op']
        if op == 'list':
            _, vals = progs.src_values(node)
            for v in vals:
                self.log.append((path, 'read', v))
                yield v
            return
        if op == 'dict':
            keys, vals = progs.src_values(node)
            for k, v in zip(keys, vals):
                self.log.append((path, 'read', v))
                yield (k, v) if with_key else v
            return
        if op == 'parmap' or (op == 'batch_map' and node.get('workers')):
            # lazy_parallel_map pulls its input in the consumer thread, at most buffer_size + 1 ahead of the results
            (c, cp), = self.kids(node, path)
            if op == 'parmap':
                f = self.fn_of(node)
                apply = (lambda x: (x[0], self.call(path, f, x[1]))) if with_key else (lambda x: self.call(path, f, x))
            else:
                g = functools.partial(progs.f_wrap, node['fn'])
                if with_key:
                    apply = lambda b: (b[0], [self.call(path, g, x) for x in b[1]])  # noqa
                else:
                    apply = lambda b: [self.call(path, g, x) for x in b]  # noqa
            ahead = node['buffer'] + 1
            buf = []
            for x in self.iter(c, cp, with_key):
                buf.append(apply(x))
                if len(buf) > ahead:
                    yield buf.pop(0)
            yield from buf
            return
        if op in ('map', 'frag', 'nonemap'):
            f = self.fn_of(node)
            (c, cp), = self.kids(node, path)
            for x in self.iter(c, cp, with_key):
                if with_key:
                    yield x[0], self.call(path, f, x[1])
                else:
                    yield self.call(path, f, x)
            return
        if op == 'batch_map':
            (c, cp), = self.kids(node, path)
            f = functools.partial(progs.f_wrap, node['fn'])
            for b in self.iter(c, cp, with_key):
                if with_key:
                    yield b[0], [self.call(path, f, x) for x in b[1]]
                else:
                    yield [self.call(path, f, x) for x in b]
            return
        if op == 'filter' and node['lazy']:
            f = self.fn_of(node)
            (c, cp), = self.kids(node, path)
            for x in self.iter(c, cp, with_key):
                if self.call(path, f, x[1] if with_key else x):
                    yield x
            return
        if op in ('slice', 'cache', 'catch', 'copy') and op != 'copy':
            n = ev(node).n if op != 'catch' else ev(node['in']).n
            keys = ev(node).keys
            for i in range(n):
                v = self.get(node, path, i)
                yield (keys[i], v) if with_key else v
            return
        if op == 'copy':
            (c, cp), = self.kids(node, path)
            yield from self.iter(c, cp, with_key)
            return
        if op in ('concat', 'tile'):
            kids = self.kids(node, path) if op == 'concat' else [(node['in'], path + '.0')] * node['r']
            for c, cp in kids:
                yield from self.iter(c, cp, with_key)
            return
        if op == 'intersperse':
            kids = self.kids(node, path)
            its = [self.iter(c, cp, with_key) for c, cp in kids]
            for d, _ in intersperse_order([ev(c).n for c, _ in kids]):
                yield next(its[d])
            return
        if op == 'zip':
            yield from zip(*[self.iter(c, cp) for c, cp in self.kids(node, path)])
            return
        if op == 'key_zip':
            for k in ev(node).keys:
                v = self.getkey(node, path, k)
                yield (k, v) if with_key else v
            return
        if op == 'batch':
            (c, cp), = self.kids(node, path)
            cur = []
            for x in self.iter(c, cp):
                cur.append(x)
                if len(cur) >= node['n']:
                    yield cur
                    cur = []
            if cur and not node['drop_last']:
                yield cur
            return
        if op == 'unbatch':
            (c, cp), = self.kids(node, path)
            for b in self.iter(c, cp):
                yield from b
            return
        if op == 'items':
            (c, cp), = self.kids(node, path)
            for kv in self.iter(c, cp, with_key=True):
                yield (kv[0], kv) if with_key else kv
            return
        if op == 'local_shuffle':
            # maximal look-ahead the statement allows: the shuffle buffer
            (c, cp), = self.kids(node, path)
            buf = []
            for x in self.iter(c, cp, with_key):
                buf.append(x)
                if len(buf) >= node['buffer']:
                    yield buf.pop(0)
            yield from buf
            return
        if op == 'prefetch':
            # single-thread prefetch: at most buffer_size + 2 examples ahead
            (c, cp), = self.kids(node, path)
            ahead = node['buffer'] + 2
            buf = []
            if node.get('catch', False) is not False:
                # catching wraps the input into a catch stage, which fetches example by example through indexing
                n, keys = ev(c).n, ev(c).keys
                src = (((keys[i], self.get(c, cp, i)) if with_key else self.get(c, cp, i)) for i in range(n))
            else:
                src = self.iter(c, cp, with_key)
            for x in src:
                buf.append(x)
                if len(buf) > ahead:
                    yield buf.pop(0)
            yield from buf
            return
        raise ValueError(f'lazyref: {op}')

    # ----------------------------------------------------------------------------------------------- random access
    def get(self, node, path, i):
        """The i-th example (0 <= i < len) evaluating only what it is made of."""
        op = node['op']
        if op == 'list':
            _, vals = progs.src_values(node)
            self.log.append((path, 'read', vals[i]))
            return vals[i]
        if op == 'dict':
            _, vals = progs.src_values(node)
            self.log.append((path, 'read', vals[i]))
            return vals[i]
        if op in ('map', 'frag', 'parmap', 'nonemap'):
            (c, cp), = self.kids(node, path)
            return self.call(path, self.fn_of(node), self.get(c, cp, i))
        if op == 'batch_map':
            (c, cp), = self.kids(node, path)
            f = functools.partial(progs.f_wrap, node['fn'])
            return [self.call(path, f, x) for x in self.get(c, cp, i)]
        if op == 'slice':
            (c, cp), = self.kids(node, path)
            mc = ev(c)
            idx = form_indices(node['form'], mc.n, mc.keys)
            return self.get(c, cp, idx[i])
        if op in ('cache', 'copy', 'catch'):
            (c, cp), = self.kids(node, path)
            return self.get(c, cp, i)
        if op in ('concat', 'tile'):
            kids = self.kids(node, path) if op == 'concat' else [(node['in'], path + '.0')] * node['r']
            for c, cp in kids:
                n = ev(c).n
                if i < n:
                    return self.get(c, cp, i)
                i -= n
            raise IndexError(i)
        if op == 'intersperse':
            kids = self.kids(node, path)
            d, j = intersperse_order([ev(c).n for c, _ in kids])[i]
            return self.get(kids[d][0], kids[d][1], j)
        if op == 'zip':
            return tuple(self.get(c, cp, i) for c, cp in self.kids(node, path))
        if op == 'key_zip':
            return self.getkey(node, path, ev(node).keys[i])
        if op == 'batch':
            (c, cp), = self.kids(node, path)
            n = ev(c).n
            out = [self.get(c, cp, j) for j in range(i * node['n'], min(n, (i + 1) * node['n']))]
            if (i + 1) * node['n'] > n:
                self.probe(c, cp, n)  # the implementation finds the end of the data by asking for one more
            return out
        if op == 'items':
            (c, cp), = self.kids(node, path)
            return ev(node).keys[i], self.get(c, cp, i)
        raise ValueError(f'lazyref.get: {op}')

    def probe(self, node, path, j):
        """Index j >= len(node) is asked for (the end-of-data probe of a batch above). A batch evaluates what exists of
        its j-th chunk (the dropped incomplete batch) and passes the probe on; element-wise stages pass it on."""
        op = node['op']
        if op == 'batch':
            (c, cp), = self.kids(node, path)
            n = ev(c).n
            start = j * node['n']
            for jj in range(start, min(n, start + node['n'])):
                self.get(c, cp, jj)
            if start + node['n'] > n:
                self.probe(c, cp, max(n, start))
        elif op in ('map', 'frag', 'parmap', 'nonemap', 'cache', 'copy', 'items', 'batch_map'):
            (c, cp), = self.kids(node, path)
            self.probe(c, cp, j)
        elif op == 'zip':
            # a zip asks its members in order; the first one already refuses (all have the same length)
            c, cp = self.kids(node, path)[0]
            self.probe(c, cp, j)
        # selections, concatenations, sources: the IndexError comes from index arithmetic, nothing is evaluated

    def getkey(self, node, path, k):
        op = node['op']
        if op == 'dict':
            keys, vals = progs.src_values(node)
            v = vals[keys.index(k)]
            self.log.append((path, 'read', v))
            return v
        if op in ('map', 'frag', 'parmap', 'nonemap'):
            (c, cp), = self.kids(node, path)
            return self.call(path, self.fn_of(node), self.getkey(c, cp, k))
        if op == 'batch_map':
            (c, cp), = self.kids(node, path)
            f = functools.partial(progs.f_wrap, node['fn'])
            return [self.call(path, f, x) for x in self.getkey(c, cp, k)]
        if op == 'filter':
            (c, cp), = self.kids(node, path)
            x = self.getkey(c, cp, k)
            self.call(path, self.fn_of(node), x)
            return x
        if op in ('slice', 'copy', 'catch', 'local_shuffle'):
            (c, cp), = self.kids(node, path)
            return self.getkey(c, cp, k)
        if op == 'cache':
            return self.get(node, path, ev(node).keys.index(k))
        if op in ('concat', 'intersperse', 'tile'):
            kids = self.kids(node, path) if op != 'tile' else [(node['in'], path + '.0')]
            for c, cp in kids:
                if k in (ev(c).keys or []):
                    return self.getkey(c, cp, k)
            raise KeyError(k)
        if op == 'key_zip':
            return tuple(self.getkey(c, cp, k) for c, cp in self.kids(node, path))
        if op == 'items':
            (c, cp), = self.kids(node, path)
            return k, self.get(c, cp, ev(node).keys.index(k))
        raise ValueError(f'lazyref.getkey: {op}')
