import json, sys
sys.path.insert(0,'/verif')
props=[json.loads(l) for l in open('/verif/properties.jsonl')]
import importlib.util, os
checks=[]; na=[]
meta=json.load(open('/verif/vlib/manifest_meta.json'))
for p in props:
    pid=p['id']
    if os.path.exists(f'/verif/vlib/checks/{pid.lower()}.py') and pid in meta:
        m=meta[pid]
        checks.append({
          'property_id':pid,
          'quick_cmd':f'/venv/bin/python -m vlib.run {pid} --tier quick',
          'thorough_cmd':f'/venv/bin/python -m vlib.run {pid} --tier thorough',
          'evidence_file':f'/verif/evidence/{pid}.json',
          'replay_cmd_template':f'/venv/bin/python -m vlib.run {pid} --replay {{path}}',
          'engine':m.get('engine','vlib'),
          'level_claimed':{'category':m.get('category','exploration'),'text':m['text'],'design_ref':m['design_ref']},
          'level_note':m['note'],
          'technique':m['technique'],
        })
    else:
        na.append({'property_id':pid,'reason':'check not built yet in this revision of /verif (planned, see DESIGN.md section 3); nothing is claimed for it'})
man={
 'version':1,
 'setup_cmd':'/venv/bin/pip install --no-index --find-links /opt/veriftools/wheels hypothesis >/dev/null 2>&1; /venv/bin/python -c "import hypothesis, numpy, lazy_dataset"',
 'hooks':{'guard':'LAZY_DATASET_VERIF','enable':'no hooks in /repo: all instrumentation is injected by the harness at run time (stand-ins swapped into lazy_dataset.parallel_utils module globals, instrumented user functions and sources); the guard variable is unused by the source tree','baseline_off_cmd':'cd /repo && /venv/bin/python -m pytest -ra -q -p no:cacheprovider --timeout=900 --continue-on-collection-errors','source_commits':[],'add_only':True},
 'engines':[{'name':'vlib','path':'/verif/vlib','serves_properties':[c['property_id'] for c in checks],'kind_free_text':'Hypothesis-driven property-based testing (program generators, stateful machines), bounded-exhaustive enumerators and a schedule-owning harness for the threaded code; explicit oracles (reference interpreter, differential, metamorphic, invariants over event logs)'}],
 'checks':checks,
 'not_applicable':na,
 'notes':'All checks: python -m vlib.run <ID> --tier quick|thorough; exit 0 held / 1 VIOLATION / 2 harness error or inconclusive. Known findings: /verif/known_findings.txt. Seeded breakages: /verif/seeded/.',
}
json.dump(man,open('/verif/MANIFEST.json','w'),indent=1)
print(len(checks),'checks',len(na),'n/a')
